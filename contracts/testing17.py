"""Contracts for the test helpers of eliot/testing.py (C17): LoggedAction / LoggedMessage."""
from pyvc.spec import contract, fields, specfun

T = "eliot/testing.py::"
LISTMSG = "list[dict[task_uuid=Any;task_level=list[int];*=Any]]"
fields("LoggedAction", startMessage="Any", endMessage="Any", children="list")
fields("LoggedMessage", message="dict")

contract(T + "LoggedMessage.__new__", props=["C17"], types={"cls": "cls", "message": "dict"}, returns="LoggedMessage", modifies=[],
         ensures=[("wraps-the-message", "fresh(result) and result.message == message")])

contract(T + "LoggedMessage.of_type", props=["C17"], types={"messages": LISTMSG, "messageType": "Any"}, returns="list[LoggedMessage]",
         requires=[("type-given-as-text-or-MessageType", "is_str(messageType) or isinst(messageType, 'MessageType')")],
         ghosts={"EXPECT": "seq", "GOT": "seq", "TYPE": "Any"}, ghost_defaults={"EXPECT": "seq(())", "GOT": "seq(())"},
         after={"LoggedMessage.__new__#*": [("GOT", "GOT + [message]")]},
         aliases={"RESULT": 0},
         modifies=[],
         loops={0: {"locals": {"EXPECT": "seq", "GOT": "seq"}, "modifies": ["seq(RESULT)"],
                    # the requested type as text, from the argument as it was passed (a MessageType object stands for its message_type)
                    "ghost_init": [("TYPE", "ite(is_str(old(messageType)), old(messageType), typed(old(messageType), 'MessageType').message_type)")],
                    "ghost_step": [("EXPECT", "EXPECT + ite(dget(_x, 'message_type') == TYPE, [_x], [])")],
                    "inv": [("exactly-the-messages-of-the-type-so-far-in-order", "GOT == EXPECT and len(seq(RESULT)) == len(GOT)")]}},
         ensures=[("exactly-the-messages-of-the-type-in-order", "GOT == EXPECT and len(seq(result)) == len(GOT)", ["C17"])])

contract(T + "LoggedAction.of_type", props=["C17"], types={"messages": LISTMSG, "actionType": "Any"}, returns="list",
         ghosts={"EXPECT": "seq", "CALLED": "seq", "TYPE": "Any"}, ghost_defaults={"EXPECT": "seq(())", "CALLED": "seq(())"},
         after={"LoggedAction.fromMessages#*": [("CALLED", "CALLED + [level]")]},
         aliases={"RESULT": 1},
         modifies=[],
         loops={0: {"locals": {"EXPECT": "seq", "CALLED": "seq"}, "modifies": ["seq(RESULT)"],
                    "ghost_init": [("TYPE", "actionType")],
                    "ghost_step": [("EXPECT", "EXPECT + ite(dget(_x, 'action_type') == TYPE and dget(_x, 'action_status') == 'started', [dget(_x, 'task_level')], [])")],
                    "inv": [("one-entry-per-start-message-of-the-type-at-any-depth-in-order", "CALLED == EXPECT and len(seq(RESULT)) == len(CALLED)"),
                            ("list-not-replaced", "seq(messages) == old(seq(messages))")]}},
         ensures=[("one-entry-per-start-message-of-the-type-at-any-depth-in-order", "CALLED == EXPECT and len(seq(result)) == len(CALLED)", ["C17"])],
         raises=[{"cls": "BaseException", "ensures": []}])

OWN = "dget(_x, 'task_uuid') == UUID and seq(dget(_x, 'task_level'))[:-1] == PREFIX"
CHILD_START = ("dget(_x, 'task_uuid') == UUID and not (seq(dget(_x, 'task_level'))[:-1] == PREFIX) and len(seq(dget(_x, 'task_level'))) == len(PREFIX) + 2 "
               "and seq(dget(_x, 'task_level'))[:-2] == PREFIX and ival(last(seq(dget(_x, 'task_level')))) == 1")
STATUS = "dget(_x, 'action_status')"

contract(T + "LoggedAction.fromMessages", props=["C17"], types={"klass": "cls", "uuid": "Any", "level": "list[int]", "messages": LISTMSG}, returns="LoggedAction",
         ghosts={"EXPK": "seq", "GOT": "seq", "LASTSTART": "Any", "LASTEND": "Any", "UUID": "Any", "PREFIX": "seq", "NSEEN": "int"},
         ghost_defaults={"EXPK": "seq(())", "GOT": "seq(())", "LASTSTART": "None", "LASTEND": "None", "NSEEN": "0"},
         after={"LoggedMessage.__new__#*": [("GOT", "GOT + [message]")], "LoggedAction.fromMessages#*": [("GOT", "GOT + [box(level)]")]},
         aliases={"START": 0, "END": 1, "CHILDREN": 2},
         modifies=[],
         loops={0: {"locals": {"EXPK": "seq", "GOT": "seq", "LASTSTART": "Any", "LASTEND": "Any", "START": "Any", "END": "Any", "NSEEN": "int"}, "modifies": ["seq(CHILDREN)"],
                    "ghost_init": [("UUID", "uuid"), ("PREFIX", "seq(level)[:-1]")],
                    "ghost_step": [
                        ("NSEEN", "NSEEN + 1"),
                        ("EXPK", "EXPK + ite((%s) and %s != 'started' and %s != 'succeeded' and %s != 'failed', [_x], ite(%s, [dget(_x, 'task_level')], []))" % (OWN, STATUS, STATUS, STATUS, CHILD_START)),
                        ("LASTSTART", "ite((%s) and %s == 'started', _x, LASTSTART)" % (OWN, STATUS)),
                        ("LASTEND", "ite((%s) and (%s == 'succeeded' or %s == 'failed'), _x, LASTEND)" % (OWN, STATUS, STATUS))],
                    "inv": [("children-are-exactly-the-direct-messages-and-direct-child-actions-so-far-in-order", "GOT == EXPK and len(seq(CHILDREN)) == len(GOT)"),
                            ("own-start-and-end-messages", "START == LASTSTART and END == LASTEND"),
                            ("every-message-so-far-was-looked-at", "NSEEN == _i"),
                            ("inputs-not-replaced", "seq(messages) == old(seq(messages)) and seq(level) == old(seq(level))")]}},
         ensures=[("children-are-exactly-the-direct-messages-and-direct-child-actions-in-list-order", "GOT == EXPK and len(seq(result.children)) == len(GOT)", ["C17"]),
                  ("the-whole-message-list-was-scanned", "NSEEN == len(seq(messages))", ["C17"]),
                  ("own-start-and-end-messages", "result.startMessage == LASTSTART and result.endMessage == LASTEND and LASTSTART is not None and LASTEND is not None", ["C17"])],
         raises=[{"cls": "ValueError", "ensures": [("only-when-the-start-or-end-message-is-missing (here or in a child action)", "True")]},
                 {"cls": "BaseException", "ensures": []}])

contract(T + "assertContainsFields", props=["C17"], types={"test": "role:TestCase", "message": "dict", "fields": "dict"}, returns="none",
         modifies=["#CALLS"],
         ensures=[("passes-exactly-when-the-message-has-a-superset-of-the-expected-fields", "restrict(message, fields) == dict_of(fields)", ["C17"])],
         raises=[{"cls": "AssertionError", "ensures": [("fails-exactly-when-some-expected-field-is-missing-or-different", "not (restrict(message, fields) == dict_of(fields))", ["C17"])]}])

contract(T + "assertHasMessage", props=["C17"],
         types={"testCase": "role:TestCase", "logger": "MemoryLogger", "messageType": "Any", "fields": "Opt[dict]"}, returns="LoggedMessage",
         requires=[("type-given-as-text (a MessageType object is handled by LoggedMessage.of_type, see there; rendering it for the failure text is not modelled)", "is_str(messageType)")],
         ghosts={"FOUND": "Any", "N": "int"}, after={"LoggedMessage.of_type#0": [("FOUND", "box(result)"), ("N", "len(GOT)")]},
         modifies=["#CALLS", "#NTOP"],
         ensures=[("succeeds-exactly-when-the-first-message-of-the-type-has-a-superset-of-the-fields-and-returns-it",
                   "N > 0 and box(result) == seq(FOUND)[0] and implies(fields is not None, restrict(typed(result.message, 'dict'), typed(fields, 'dict')) == dict_of(typed(fields, 'dict')))", ["C17"])],
         raises=[{"cls": "AssertionError", "ensures": [("fails-when-no-message-of-the-type-or-a-field-differs",
                   "N == 0 or (fields is not None and not (restrict(typed(typed(seq(FOUND)[0], 'LoggedMessage').message, 'dict'), typed(fields, 'dict')) == dict_of(typed(fields, 'dict'))))", ["C17"])]}])
