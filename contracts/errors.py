"""Contracts for eliot/_errors.py and eliot/_traceback.py."""
from pyvc.spec import contract, fields, specfun, global_hint

E = "eliot/_errors.py::"
T = "eliot/_traceback.py::"

fields("ErrorExtraction", registry="dict[role:Extractor]")

LOGGING_FRAME = ["#LOG", "#OFFERS", "#CALLS", "#IO", "#NTOP", "field:_last_child"]
LOGGING_EFFECT = [
                  ("positions-only-in-current-action", "only_changed('_last_child', curact())"),
                  ("current-action-advances", "implies(curact() is not None, rep_ok(typed(curact(), 'Action')) and pos(typed(curact(), 'Action')) >= old(pos(typed(curact(), 'Action'))))"),
]

contract(E + "ErrorExtraction.get_fields_for_exception", props=["C03", "C07"], cycle="extract", decreases="1",
         types={"logger": "Opt[role:ILogger]", "exception": "Exc"}, returns="dict",
         ghosts={"R": "seqe", "PRE": "seq", "K": "cls", "CALLED": "bool", "F": "Any", "ARG": "Any", "RET": "Any"},
         ghost_defaults={"R": "empty_log()", "CALLED": "False"},
         after={"write_traceback#0": [("R", "R")],
                "Extractor.__call__#0": [("PRE", "_done"), ("K", "klass"), ("CALLED", "True"), ("F", "box(self)"), ("ARG", "box(exception)"), ("RET", "box(result)")]},
         after_raise={"Extractor.__call__#0": [("PRE", "_done"), ("K", "klass"), ("CALLED", "True"), ("F", "box(self)"), ("ARG", "box(exception)")]},
         requires=[("current-ok", "cur_ok()")],
         modifies=LOGGING_FRAME,
         loops={0: {"inv": [("no-earlier-class-registered", "none_in(_done, self.registry)"),
                            ("nothing-happened-yet", "LOG == old(LOG) and CALLS == old(CALLS) and NTOP == old(NTOP)")],
                    "modifies": []}},
         ensures=LOGGING_EFFECT + [
             ("only-reports-logged", "LOG == old(LOG) + R and all_reports(R)", ["C03"]),
             ("result-is-a-fresh-dict", "fresh(result)", ["C03"]),
             ("field-names", "'self' not in result and 'message_type' not in result and 'action_status' not in result and '__eliot_logger__' not in result and '__eliot_serializer__' not in result and forall(lambda k: implies(contains(dict_of(result), k), is_str(k)), 'val')"),
             ("extractor-of-the-nearest-registered-class-in-the-MRO",
              "implies(CALLED, prefix_of(PRE + [K], mro(clsof_(exception))) and none_in(PRE, self.registry) and contains(dict_of(self.registry), K) "
              "and F == dget(self.registry, K) and ARG == box(exception))", ["C03"]),
             ("no-extractor-no-fields", "implies(not CALLED, dom(result) == setof() and none_in(mro(clsof_(exception)), self.registry) and CALLS == old(CALLS))", ["C03"]),
             ("fields-are-the-extractor-output-or-empty-if-it-raised",
              "implies(CALLED, (dict_of(result) == dict_of(RET) and R == empty_log()) or (dom(result) == setof() and len(R) > 0))", ["C03"])])

contract(T + "write_traceback", props=["C07", "C13", "C03"], cycle="extract", decreases="ite(_extract_fields, 2, 0)",
         types={"logger": "Opt[role:ILogger]", "exc_info": "Opt[tuple]", "_extract_fields": "bool"}, returns="none",
         handling=True,
         assumes=[("E11 (no dangling references inside containers): the exception object in exc_info exists", "implies(exc_info is not None, allocated(seq(exc_info)[1]))")],
         requires=[("current-ok", "cur_ok()"),
                   ("exc-info-is-a-triple-holding-an-exception", "implies(exc_info is not None, len(seq(exc_info)) == 3 and isinst(seq(exc_info)[1], 'BaseException'))"),
                   ("called-with-exc_info-or-while-an-exception-is-being-handled (documented: call it from an except block)", "exc_info is not None or handling_exception()")],
         modifies=LOGGING_FRAME + ["field:$uuid_str"], ghosts={"R": "seqe", "R1": "seqe"}, ghost_defaults={"R1": "empty_log()"},
         after={"ErrorExtraction.get_fields_for_exception#0": [("R1", "R")], "log_message#0": [("R", "R1 + [E] + R")]},
         ensures=LOGGING_EFFECT + [
             ("one-traceback-then-reports", "LOG == old(LOG) + R and len(R) > 0 and all_reports(R)", ["C13"])])

global_hint("eliot/_traceback.py:_traceback_no_io", "role:TracebackModule")
contract("iface::TracebackModule.format_exception", params=["self", "typ", "exception", "tb"], returns="list[str]",
         notes="traceback.format_exception (the no-I/O copy): returns a list of str, never raises", modifies=[])

# facts established by module initialisation code (trusted here, cross-checked natively by drivers/facts_check.py)
from pyvc.spec import module_fact
module_fact("eliot/_traceback.py:TRACEBACK_MESSAGE", "X.message_type == 'eliot:traceback'")
