"""Contracts for eliot/_errors.py and eliot/_traceback.py."""
from pyvc.spec import contract, fields, specfun, global_hint

E = "eliot/_errors.py::"
T = "eliot/_traceback.py::"

fields("ErrorExtraction", registry="dict[role:Extractor]")

LOGGING_FRAME = ["#LOG", "#OFFERS", "#CALLS", "#IO", "#NTOP", "field:_last_child"]
LOGGING_EFFECT = [
                  ("positions-only-in-current-action", "only_changed('_last_child', curact())"),
                  ("current-action-advances", "implies(curact() is not None, pos_ok(typed(curact(), 'Action')) and pos(typed(curact(), 'Action')) >= old(pos(typed(curact(), 'Action'))))"),
                  ("channels-grow", "prefix_of(old(OFFERS), OFFERS) and prefix_of(old(CALLS), CALLS) and prefix_of(old(IO), IO)")]

contract(E + "ErrorExtraction.get_fields_for_exception", props=["C03", "C07"], cycle="extract", decreases="1",
         types={"logger": "Any", "exception": "Exc"}, returns="dict",
         requires=[("current-ok", "cur_ok()")],
         modifies=LOGGING_FRAME, ghosts={"R": "seqe"},
         ensures=LOGGING_EFFECT + [
             ("only-reports-logged", "LOG == old(LOG) + R and all_reports(R)", ["C03"]),
             ("result-is-a-fresh-dict", "fresh(result)", ["C03"]),
             ("result-is-extractor-output-or-empty",
              "(LASTF == old(LASTF) and NTOP == old(NTOP) and dom(result) == setof()) or "
              "(last(CALLS).tag == 'ret' and box(result) == last(CALLS).d and LASTARGS == [exception]) or "
              "(dom(result) == setof() and len(R) > 0)", ["C03"])])

contract(T + "write_traceback", props=["C07", "C13", "C03"], cycle="extract", decreases="ite(_extract_fields, 2, 0)",
         types={"logger": "Opt[role:ILogger]", "exc_info": "Opt[tuple]", "_extract_fields": "bool"}, returns="none",
         requires=[("current-ok", "cur_ok()")],
         modifies=LOGGING_FRAME, ghosts={"R": "seqe"},
         ensures=LOGGING_EFFECT + [
             ("one-traceback-then-reports", "LOG == old(LOG) + R and len(R) > 0 and all_reports(R)", ["C13"])])

global_hint("eliot/_traceback.py:_traceback_no_io", "role:TracebackModule")
contract("iface::TracebackModule.format_exception", params=["self", "typ", "exception", "tb"], returns="list[str]",
         notes="traceback.format_exception (the no-I/O copy): returns a list of str, never raises", modifies=[])
