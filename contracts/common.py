"""Ghost state, field-type tables, interface models shared by all contract files."""
from pyvc.spec import contract, fields, specfun, interface, axiom, global_hint
from pyvc.engine import ghost

# ---------------------------------------------------------------- ghost components
ghost("CTX", "ctxmap")          # ContextId -> value of _ACTION_CONTEXT in that context
ghost("CALLS", "seq_ev")        # calls of opaque callables, in order
ghost("OFFERS", "seq_ev")       # destination invocations
ghost("LOG", "seq_ev")          # ILogger.write calls
ghost("IO", "seq_ev")           # file write/flush events
ghost("THREADS", "seq_ev")

# ---------------------------------------------------------------- field types (class -> attr -> hint)
fields("TaskLevel", _level="list[int]")
