"""Ghost state, field-type tables, interface models shared by all contract files."""
from pyvc.spec import contract, fields, specfun, interface, axiom, global_hint
from pyvc.engine import ghost

# ---------------------------------------------------------------- ghost components
ghost("CTX", "ctxmap")          # ContextId -> value of _ACTION_CONTEXT in that context
ghost("CALLS", "seq_ev")        # calls of opaque callables, in order
ghost("OFFERS", "seq_ev")       # destination invocations
ghost("LOG", "seq_ev")          # ILogger.write calls
ghost("IO", "seq_ev")           # file write/flush events
ghost("THREADS", "seq_ev")
ghost("NTOP", "refint")
ghost("LASTARGS", "seq_val")    # engine-private: positional arguments / keywords / callee of the most recent opaque call
ghost("LASTKWDOM", "setval")
ghost("LASTKWMAP", "mapval")
ghost("LASTF", "val")       # calls of each opaque callable made by Eliot frames (not by user code re-entering)

# ---------------------------------------------------------------- field types (class -> attr -> hint)
fields("TaskLevel", _level="list[int]")
fields("Action", _successFields="dict", _logger="role:ILogger", _task_level="TaskLevel", _last_child="Opt[TaskLevel]",
       _identification="dict", _serializers="Opt[_ActionSerializers]", _finished="bool", _parent_token="Any")
fields("_ActionSerializers", start="Any", success="Any", failure="Any")
global_hint("eliot/_action.py:_ACTION_CONTEXT", "Opt[Action]")
global_hint("eliot/_output.py:_DEFAULT_LOGGER", "role:ILogger")

# ---------------------------------------------------------------- spec functions
specfun("level_of", ["tl"], "seq(tl._level)")
specfun("lvl", ["a"], "seq(a._task_level._level)")
specfun("pos", ["a"], "ite(a._last_child is None, 0, ival(last(typed(a._last_child, 'TaskLevel')._level)))")
specfun("uu", ["a"], "dget(a._identification, 'task_uuid')")
specfun("atype", ["a"], "dget(a._identification, 'action_type')")
specfun("curact", [], "ite(CTX[me] == UNSET, None, CTX[me])")
specfun("pos_ok", ["a"],
        "implies(a._last_child is not None,"
        "        level_of(typed(a._last_child, 'TaskLevel')) == lvl(a) + [pos(a)] and pos(a) >= 1"
        "        and ref(typed(a._last_child, 'TaskLevel')._level) != ref(a._task_level._level))")
specfun("rep_ok", ["a"],
        "pos_ok(a) and dom(a._identification) == setof('task_uuid', 'action_type')"
        " and ref(a._identification) != ref(a._successFields)")
# E12 (ownership): the _identification / _successFields dicts of distinct Actions are distinct objects -- both are created by dict
# displays in Action.__init__ and never escape; stated where it is needed, as a targeted precondition:
specfun("owns_success_fields", ["a"],
        "implies(curact() is not None and curact() is not a, ref(a._successFields) != ref(typed(curact(), 'Action')._identification))")
specfun("private_dict", ["d"],
        "implies(curact() is not None, ref(d) != ref(typed(curact(), 'Action')._identification))")
specfun("private_to", ["d", "a"], "ref(d) != ref(a._identification) and ref(d) != ref(a._successFields)")
specfun("cur_ok", [], "implies(curact() is not None, rep_ok(typed(curact(), 'Action')))")
specfun("is_report", ["ev"],
        "ev.tag == 'write' and ev.d is None and (ev.e == 'eliot:destination_failure' or ev.e == 'eliot:serialization_failure'"
        " or ev.e == 'eliot:traceback')")
specfun("write_ev", ["logger", "d", "ser"],
        "Ev('write', logger, d, ser, dget(d, 'action_status'), dget(d, 'message_type'), dget(d, 'task_level'), dget(d, 'task_uuid'))")

def _all_reports_axioms(eng):
    import z3
    from pyvc.sorts import SeqE, Ev, Val
    from pyvc.models import ALL_REPORTS
    a, b = z3.Consts("ar!a ar!b", SeqE)
    e = z3.Const("ar!e", Ev)
    def s(x):
        return Val.StrV(z3.StringVal(x))
    is_rep = z3.And(Ev.tag(e) == z3.StringVal("write"), Ev.d(e) == Val.NoneV,
                    z3.Or(Ev.e(e) == s("eliot:destination_failure"), Ev.e(e) == s("eliot:serialization_failure"),
                          Ev.e(e) == s("eliot:traceback")))
    return [ALL_REPORTS(z3.Empty(SeqE)),
            z3.ForAll([a, b], ALL_REPORTS(z3.Concat(a, b)) == z3.And(ALL_REPORTS(a), ALL_REPORTS(b)),
                      patterns=[ALL_REPORTS(z3.Concat(a, b))]),
            z3.ForAll([e], ALL_REPORTS(z3.Unit(e)) == is_rep, patterns=[ALL_REPORTS(z3.Unit(e))])]

axiom("all_reports", _all_reports_axioms,
      "definition of the spec predicate all_reports over event sequences (empty / concatenation / unit)")

# ---------------------------------------------------------------- interface models (assumptions about code outside /repo,
# or the documented contract of a duck-typed collaborator; implementations inside /repo get refinement obligations)
contract("iface::ILogger.write", params=["self", "dictionary", "serializer"], defaults={"serializer": None},
         types={"dictionary": "dict"}, returns="none",
         notes="ILogger.write(dictionary, serializer): records one write; does not mutate the dictionary; never raises; "
               "any further writes it causes are failure reports (destination_failure / serialization_failure / traceback), "
               "which may consume positions of the current action only",
         requires=[("current-action-consistent", "cur_ok()")],
         modifies=["#LOG", "#OFFERS", "#CALLS", "#IO", "field:_last_child"],
         ghosts={"R": "seqe", "DOFF": "seqe"},
         ensures=[("one-write-then-only-reports", "LOG == old(LOG) + [write_ev(self, dictionary, serializer)] + R and all_reports(R)"),
                  ("offers-appended", "OFFERS == old(OFFERS) + DOFF"),
                  ("dictionary-not-mutated", "dict_of(dictionary) == old(dict_of(dictionary))"),
                  ("positions-only-in-current-action", "only_changed('_last_child', curact())"),
                  ("current-action-advances", "implies(curact() is not None, rep_ok(typed(curact(), 'Action')) and pos(typed(curact(), 'Action')) >= old(pos(typed(curact(), 'Action'))))"),
                  ("channels-grow", "prefix_of(old(OFFERS), OFFERS) and prefix_of(old(CALLS), CALLS) and prefix_of(old(IO), IO)")])

RELY = [("context-restored", "CTX[me] == old(CTX[me])"),
        ("tokens-untouched", "unchanged_old('tok_old') and unchanged_old('tok_used') and unchanged_old('tok_ctx')"),
        ("other-contexts-untouched", "forall(lambda c: implies(c != me, CTX[c] == old(CTX[c])), 'int')"),
        ("current-action-stays-consistent-and-open",
         "implies(curact() is not None, rep_ok(typed(curact(), 'Action')) and typed(curact(), 'Action')._finished == old(typed(curact(), 'Action')._finished) "
         "and typed(curact(), 'Action')._parent_token == old(typed(curact(), 'Action')._parent_token) and pos(typed(curact(), 'Action')) >= old(pos(typed(curact(), 'Action'))) "
         "and lvl(typed(curact(), 'Action')) == old(lvl(typed(curact(), 'Action'))) and uu(typed(curact(), 'Action')) == old(uu(typed(curact(), 'Action'))) "
         "and typed(curact(), 'Action')._successFields == old(typed(curact(), 'Action')._successFields) "
         "and typed(curact(), 'Action')._identification == old(typed(curact(), 'Action')._identification))")]

contract("iface::UserCode.__call__", returns="Any", keep=["locked_flag"],
         notes="application code run inside an action (f of Action.run, a wrapped function): may do anything, including "
               "calling the Eliot API, but like every Eliot construct it leaves the current action as it found it and never "
               "touches context tokens it does not own, and leaves the current action consistent and unfinished; it does not acquire or "
               "release Eliot's private locks (the `_lock` of a logger, the one-shot lock inside a preserve_context closure); may raise any BaseException",
         modifies=["*"],
         ensures=RELY + [("recorded", "last(CALLS) == Ev('ret', self, args, kwargs, result, old(CTX[me]))")],
         raises=[{"cls": "BaseException", "ensures": RELY + [("recorded", "last(CALLS) == Ev('exc', self, args, kwargs, exc, old(CTX[me]))")]}])

contract("iface::WithBody.__call__", returns="Any",
         notes="the body of a `with` block around a @contextmanager: arbitrary application code (same rely as UserCode); "
               "it ends normally or with any BaseException thrown at the yield (GeneratorExit for close())",
         modifies=["*"],
         ensures=RELY,
         raises=[{"cls": "BaseException", "ensures": RELY + [("recorded", "last(CALLS) == Ev('thrown', self, args, kwargs, exc)")]}])

contract("iface::Str.str", params=["self"], returns="str",
         notes="__str__ of an arbitrary object: returns a str or raises any BaseException; does not touch Eliot's objects",
         modifies=["#CALLS"], ensures=[("recorded", "CALLS == old(CALLS) + [Ev('ret', self, None, None, result)]")],
         raises=[{"cls": "BaseException", "ensures": [("recorded", "CALLS == old(CALLS) + [Ev('exc', self, None, None, exc)]")]}])
contract("iface::Str.repr", params=["self"], returns="str",
         notes="__repr__ of an arbitrary object: returns a str or raises any BaseException; does not touch Eliot's objects",
         modifies=["#CALLS"], ensures=[("recorded", "CALLS == old(CALLS) + [Ev('ret', self, None, None, result)]")],
         raises=[{"cls": "BaseException", "ensures": [("recorded", "CALLS == old(CALLS) + [Ev('exc', self, None, None, exc)]")]}])

contract("iface::Opaque.__call__", returns="Any",
         notes="an arbitrary callable handed to Eliot (no role known): returns anything or raises any BaseException; "
               "does not touch Eliot's objects",
         modifies=["#CALLS"],
         ensures=[("recorded", "CALLS == old(CALLS) + [Ev('ret', self, args, kwargs, result)]")],
         raises=[{"cls": "BaseException", "ensures": [("recorded", "CALLS == old(CALLS) + [Ev('exc', self, args, kwargs, exc)]")]}])

contract("iface::Extractor.__call__", params=["self", "exception"], returns="dict",
         notes="a registered exception extractor: returns a dict of its own (not one of Eliot's internal dicts) or raises any "
               "BaseException; does not touch Eliot's objects",
         modifies=["#CALLS"],
         ensures=[("recorded", "CALLS == old(CALLS) + [Ev('ret', self, exception, None, result)]"),
                  ("field-names-are-str-and-not-eliot-reserved", "'self' not in result and 'message_type' not in result and 'action_status' not in result and '__eliot_logger__' not in result and '__eliot_serializer__' not in result and forall(lambda k: implies(contains(dict_of(result), k), is_str(k)), 'val')"),
                  ("result-is-its-own", "fresh(result) or private_dict(result)")],
         raises=[{"cls": "BaseException", "ensures": [("recorded", "CALLS == old(CALLS) + [Ev('exc', self, exception, None, exc)]")]}])

from pyvc.spec import wf_fields
wf_fields("_identification", "_successFields")

fields("Destinations", _destinations="list[role:Dest]", _any_added="bool", _globalFields="dict")
fields("BufferingDestination", messages="list")
fields("Logger", _destinations="Destinations")


def _count_failed_axioms(eng):
    import z3
    from pyvc.sorts import SeqE, Ev, Val
    from pyvc.models import COUNT_FAILED
    a, b = z3.Consts("cf!a cf!b", SeqE)
    e = z3.Const("cf!e", Ev)
    return [COUNT_FAILED(z3.Empty(SeqE)) == 0,
            z3.ForAll([a, b], COUNT_FAILED(z3.Concat(a, b)) == COUNT_FAILED(a) + COUNT_FAILED(b), patterns=[COUNT_FAILED(z3.Concat(a, b))]),
            z3.ForAll([e], COUNT_FAILED(z3.Unit(e)) == z3.If(Ev.c(e) == Val.BoolV(True), 1, 0), patterns=[COUNT_FAILED(z3.Unit(e))]),
            z3.ForAll([a], COUNT_FAILED(a) >= 0, patterns=[COUNT_FAILED(a)])]

def _proj_axioms(eng):
    import z3
    from pyvc.sorts import SeqE, SeqV, Ev, Val, S
    from pyvc.models import PROJ_A, ALL_B, ALL_TAG, PROJ_B, ALL_A
    a, b = z3.Consts("pj!a pj!b", SeqE)
    e = z3.Const("pj!e", Ev)
    v = z3.Const("pj!v", Val)
    t = z3.Const("pj!t", S)
    return [PROJ_A(z3.Empty(SeqE)) == z3.Empty(SeqV),
            z3.ForAll([a, b], PROJ_A(z3.Concat(a, b)) == z3.Concat(PROJ_A(a), PROJ_A(b)), patterns=[PROJ_A(z3.Concat(a, b))]),
            z3.ForAll([e], PROJ_A(z3.Unit(e)) == z3.Unit(Ev.a(e)), patterns=[PROJ_A(z3.Unit(e))]),
            PROJ_B(z3.Empty(SeqE)) == z3.Empty(SeqV),
            z3.ForAll([a, b], PROJ_B(z3.Concat(a, b)) == z3.Concat(PROJ_B(a), PROJ_B(b)), patterns=[PROJ_B(z3.Concat(a, b))]),
            z3.ForAll([e], PROJ_B(z3.Unit(e)) == z3.Unit(Ev.b(e)), patterns=[PROJ_B(z3.Unit(e))]),
            z3.ForAll([v], ALL_A(z3.Empty(SeqE), v), patterns=[ALL_A(z3.Empty(SeqE), v)]),
            z3.ForAll([a, b, v], ALL_A(z3.Concat(a, b), v) == z3.And(ALL_A(a, v), ALL_A(b, v)), patterns=[ALL_A(z3.Concat(a, b), v)]),
            z3.ForAll([e, v], ALL_A(z3.Unit(e), v) == (Ev.a(e) == v), patterns=[ALL_A(z3.Unit(e), v)]),
            z3.ForAll([v], ALL_B(z3.Empty(SeqE), v), patterns=[ALL_B(z3.Empty(SeqE), v)]),
            z3.ForAll([a, b, v], ALL_B(z3.Concat(a, b), v) == z3.And(ALL_B(a, v), ALL_B(b, v)), patterns=[ALL_B(z3.Concat(a, b), v)]),
            z3.ForAll([e, v], ALL_B(z3.Unit(e), v) == (Ev.b(e) == v), patterns=[ALL_B(z3.Unit(e), v)]),
            z3.ForAll([t], ALL_TAG(z3.Empty(SeqE), t), patterns=[ALL_TAG(z3.Empty(SeqE), t)]),
            z3.ForAll([a, b, t], ALL_TAG(z3.Concat(a, b), t) == z3.And(ALL_TAG(a, t), ALL_TAG(b, t)), patterns=[ALL_TAG(z3.Concat(a, b), t)]),
            z3.ForAll([e, t], ALL_TAG(z3.Unit(e), t) == (Ev.tag(e) == t), patterns=[ALL_TAG(z3.Unit(e), t)])]

def _filter_axioms(eng):
    import z3
    from pyvc.sorts import SeqV, SetV, Val
    from pyvc.models import FILTER_OUT
    a, b = z3.Consts("fo!a fo!b", SeqV)
    x = z3.Const("fo!x", Val)
    s = z3.Const("fo!s", SetV)
    return [z3.ForAll([s], FILTER_OUT(z3.Empty(SeqV), s) == z3.Empty(SeqV), patterns=[FILTER_OUT(z3.Empty(SeqV), s)]),
            z3.ForAll([a, b, s], FILTER_OUT(z3.Concat(a, b), s) == z3.Concat(FILTER_OUT(a, s), FILTER_OUT(b, s)), patterns=[FILTER_OUT(z3.Concat(a, b), s)]),
            z3.ForAll([x, s], FILTER_OUT(z3.Unit(x), s) == z3.If(z3.Select(s, x), z3.Empty(SeqV), z3.Unit(x)), patterns=[FILTER_OUT(z3.Unit(x), s)])]

axiom("filter_out", _filter_axioms, "definition of the spec function filter_out over value sequences (empty / concatenation / unit)")
axiom("event-projections", _proj_axioms, "definitions of proj_a / all_b / all_tag over event sequences (empty / concatenation / unit)")
axiom("count_failed", _count_failed_axioms, "definition of the spec function count_failed over offer events (empty / concatenation / unit)")

contract("iface::Dest.__call__", params=["self", "message"], returns="Any",
         notes="a registered destination: any callable taking the message dict; may raise any Exception subclass on any call "
               "(the property's fault model); does not mutate the dictionary, does not re-enter Eliot, does not touch Eliot's objects",
         modifies=["#OFFERS", "#IO"],
         ensures=[("offer-recorded", "OFFERS == old(OFFERS) + [Ev('offer', self, message, False)]"), ("io-grows", "prefix_of(old(IO), IO)")],
         raises=[{"cls": "Exception", "ensures": [("offer-recorded", "OFFERS == old(OFFERS) + [Ev('offer', self, message, True, exc)]"),
                                                  ("io-grows", "prefix_of(old(IO), IO)")]}])

fields("Field", key="Any", description="Any", _serializer="role:Serializer", _extraValidator="Opt[role:Validator]")
fields("_MessageSerializer", fields="dict[str->Field]", allow_additional_fields="bool")
fields("MessageType", message_type="Any", description="Any", _serializer="_MessageSerializer")

for _role in ("Serializer", "Validator"):
    contract("iface::%s.__call__" % _role, params=["self", "input"], returns="Any",
             notes="a field %s function supplied by the application: returns anything or raises any BaseException; arbitrary and "
                   "possibly non-idempotent; does not touch Eliot's objects or the message dictionary" % _role.lower(),
             modifies=["#CALLS"],
             ensures=[("recorded", "CALLS == old(CALLS) + [Ev('ret', self, input, None, result)]")],
             raises=[{"cls": "BaseException", "ensures": [("recorded", "CALLS == old(CALLS) + [Ev('exc', self, input, None, exc)]")]}])

fields("Message", _contents="dict", _serializer="Opt[_MessageSerializer]")
global_hint("eliot/_traceback.py:TRACEBACK_MESSAGE", "MessageType")
global_hint("eliot/_errors.py:_error_extraction", "ErrorExtraction")
fields("role:Dest", messages="list[dict]")     # only read on the start-up BufferingDestination (Destinations.add requires it is one)

fields("FileDestination", file="role:File", _json_default="role:JsonDefault", _dumps="role:Dumps", _linebreak="Any")
contract("iface::File.write", params=["self", "data"], returns="Any",
         notes="file.write(data): the io model -- appends data to the file's user-space buffer (recorded as one write event); may raise "
               "(TypeError on a str/bytes mismatch, OSError ...); one write call is atomic w.r.t. other calls on the same file object",
         modifies=["#IO"],
         ensures=[("write-recorded", "IO == old(IO) + [Ev('write', self, data)]")],
         raises=[{"cls": "Exception", "ensures": [("nothing-written", "IO == old(IO)")]}])
contract("iface::File.flush", params=["self"], returns="Any",
         notes="file.flush(): pushes the user-space buffer to the OS (recorded as one flush event); may raise OSError",
         modifies=["#IO"],
         ensures=[("flush-recorded", "IO == old(IO) + [Ev('flush', self)]")],
         raises=[{"cls": "Exception", "ensures": [("nothing", "IO == old(IO)")]}])
contract("iface::Dumps.__call__", returns="Any",
         notes="_dumps_bytes / _dumps_unicode (orjson): returns bytes / str holding one JSON document without a raw newline, or raises "
               "(TypeError for unsupported values); calls the default hook for non-native values; fidelity of the encoding is the assumed "
               "orjson contract (bounded differential check in drivers/c10.py)",
         modifies=["#CALLS"],
         ensures=[("recorded", "CALLS == old(CALLS) + [Ev('dumps', self, args, kwargs, result)]"),
                  ("returns-text-or-bytes", "is_str(result) or is_bytes(result)")],
         raises=[{"cls": "Exception", "ensures": [("recorded", "prefix_of(old(CALLS), CALLS)")]}])

# ---------------------------------------------------------------- MemoryLogger (C16, C14, C13)
fields("MemoryLogger", messages="list[dict]", serializers="list[Opt[_MessageSerializer]]", tracebackMessages="list[dict[reason=Any;*=Any]]", _failed_validations="list",
       _lock="Any", _json_default="role:JsonDefault")
fields("MemoryLogger$protected", messages="_lock", serializers="_lock", tracebackMessages="_lock", _failed_validations="_lock")
contract("iface::LockedBody.__call__", returns="Any",
         notes="the method wrapped by @exclusively: arbitrary body (it may raise anything); the event records whether the caller held self._lock",
         modifies=["*"],
         ensures=[("recorded", "last(CALLS) == Ev('ret', self, args, kwargs, result, held(old(typed(seq(args)[0], 'MemoryLogger')._lock)))")],
         raises=[{"cls": "BaseException", "ensures": [("recorded", "last(CALLS) == Ev('exc', self, args, kwargs, exc, held(old(typed(seq(args)[0], 'MemoryLogger')._lock)))")]}])

contract("iface::ext.inspect.stack", params=[], returns="list[tuple]", modifies=[],
         notes="inspect.stack(): a non-empty list of frame records; never raises", ensures=[("non-empty", "len(seq(result)) >= 1")])
contract("iface::ext.traceback.format_stack", params=["f"], defaults={"f": None}, returns="list[str]", modifies=[],
         notes="traceback.format_stack(frame): a list of str; never raises")
fields("role:JsonDefault")
contract("iface::ext.eliot.json._dumps_unicode", params=["o", "default"], defaults={"default": None}, returns="str",
         notes="_dumps_unicode (orjson): returns str or raises an Exception subclass (TypeError family) for values it cannot encode",
         modifies=["#CALLS"], ensures=[("recorded", "CALLS == old(CALLS) + [Ev('dumps', o, default, None, result)]")],
         raises=[{"cls": "Exception", "ensures": [("recorded", "CALLS == old(CALLS) + [Ev('dumps-failed', o, default, None, exc)]")]}])
contract("iface::ext.orjson.dumps", params=["o", "default"], defaults={"default": None}, returns="bytes",
         notes="orjson.dumps: returns bytes holding one JSON document or raises an Exception subclass (TypeError family); "
               "fidelity is the assumed orjson contract (bounded differential check in drivers/c10.py)",
         modifies=["#CALLS"], ensures=[("recorded", "CALLS == old(CALLS) + [Ev('dumps', o, default, None, result)]")],
         raises=[{"cls": "Exception", "ensures": [("recorded", "CALLS == old(CALLS) + [Ev('dumps-failed', o, default, None, exc)]")]}])


# ---------------------------------------------------------------- string library axioms (trusted; cross-checked natively by drivers/facts_check.py)
def _string_axioms(eng):
    import z3
    from pyvc.sorts import SeqV, Val, S
    from pyvc.models import str_split, str_join, str_of, int_of_str, is_int_str
    map_str = z3.Function("map_str", SeqV, SeqV)
    map_int_nonempty = z3.Function("map_int_nonempty", SeqV, SeqV)
    all_int_nonempty = z3.Function("all_int_nonempty", SeqV, z3.BoolSort())
    all_nat = z3.Function("all_nat", SeqV, z3.BoolSort())
    u, t = z3.Consts("sx!u sx!t", S)
    l = z3.Const("sx!l", SeqV)
    at, slash = z3.StringVal("@"), z3.StringVal("/")
    levelstr = z3.Concat(slash, str_join(slash, map_str(l)))
    from pyvc.models import ascii_ok
    return [
        z3.ForAll([u, t], ascii_ok(z3.Concat(u, t)) == z3.And(ascii_ok(u), ascii_ok(t)), patterns=[ascii_ok(z3.Concat(u, t))]),
        ascii_ok(at), ascii_ok(slash),
        # "<u>@<t>".split("@") == [u, t] when neither part contains "@"
        z3.ForAll([u, t], z3.Implies(z3.And(z3.Not(z3.Contains(u, at)), z3.Not(z3.Contains(t, at))),
                                     str_split(z3.Concat(u, at, t), at) == z3.Concat(z3.Unit(Val.StrV(u)), z3.Unit(Val.StrV(t)))),
                  patterns=[str_split(z3.Concat(u, at, t), at)]),
        # [int(i) for i in ("/" + "/".join(map(str, l))).split("/") if i] == l   for lists of non-negative ints; no "@" in a level string
        z3.ForAll([l], z3.Implies(all_nat(l), z3.And(map_int_nonempty(str_split(levelstr, slash)) == l,
                                                      all_int_nonempty(str_split(levelstr, slash)),
                                                      z3.Not(z3.Contains(levelstr, at)))),
                  patterns=[str_join(slash, map_str(l))]),
    ]

axiom("string-codec", _string_axioms,
      "str.split/join/str(int)/int(str) axioms: splitting '<u>@<t>' at '@' when neither part contains '@'; the level codec "
      "'/'+'/'.join(map(str, l)) is inverted by [int(i) for i in s.split('/') if i] for lists of non-negative ints")

# ---------------------------------------------------------------- generators (C15)
ghost("NCOPY", "int")          # engine-private: number of copy_context() calls made so far
GEN_RELY = [("other-contexts-untouched", "forall(lambda c: implies(c != me, CTX[c] == old(CTX[c])), 'int')"),
            ("tokens-and-context-objects-untouched", "unchanged_old('tok_old') and unchanged_old('tok_used') and unchanged_old('tok_ctx') and unchanged_old('ctx_id_') and unchanged_old('debug')")]
contract("iface::GenFunc.__call__", returns="role:Gen",
         notes="calling the wrapped generator function: returns a new generator object without running any of its body; TypeError on a bad argument list",
         modifies=["#CALLS"],
         ensures=[("recorded", "CALLS == old(CALLS) + [Ev('mkgen', self, args, kwargs, result)] and fresh(result)")],
         raises=[{"cls": "TypeError", "ensures": [("recorded", "CALLS == old(CALLS)")]}])
contract("iface::Gen.send", keep=["debug", "ctx_id_", "tok_old", "tok_used", "tok_ctx"], params=["self", "value"], returns="Any",
         notes="generator.send(value): runs the body up to its next yield in the *current* context (which it may change: the body may be "
               "suspended inside an action); returns the yielded value, raises StopIteration(return value) at the end, or any exception",
         modifies=["*"],
         ensures=GEN_RELY + [("recorded", "last(CALLS) == Ev('ret', self, 'send', value, result, me)")],
         raises=[{"cls": "StopIteration", "ensures": GEN_RELY + [("recorded", "last(CALLS) == Ev('stop', self, 'send', value, exc.value, me)")]},
                 {"cls": "BaseException", "ensures": GEN_RELY + [("recorded", "last(CALLS) == Ev('exc', self, 'send', value, exc, me)")]}])
contract("iface::Gen.throw", keep=["debug", "ctx_id_", "tok_old", "tok_used", "tok_ctx"], params=["self", "typ", "val", "tb"], defaults={"val": None, "tb": None}, returns="Any",
         notes="generator.throw(type, value, tb): raises the given exception object at the body's yield, in the current context",
         modifies=["*"],
         ensures=GEN_RELY + [("recorded", "last(CALLS) == Ev('ret', self, 'throw', val, result, me)")],
         raises=[{"cls": "StopIteration", "ensures": GEN_RELY + [("recorded", "last(CALLS) == Ev('stop', self, 'throw', val, exc.value, me)")]},
                 {"cls": "BaseException", "ensures": GEN_RELY + [("recorded", "last(CALLS) == Ev('exc', self, 'throw', val, exc, me)")]}])
contract("iface::Driver.__call__", keep=["debug", "ctx_id_", "tok_old", "tok_used", "tok_ctx"], returns="Any",
         notes="whoever drives the wrapper between two resumptions: arbitrary code in the driver's context; it resumes with send(x) for any x "
               "(normal outcome) or throw(e)/close() for any exception object (exceptional outcome); it cannot reach the wrapper's private Context object",
         modifies=["*"],
         ensures=GEN_RELY,
         raises=[{"cls": "BaseException", "ensures": GEN_RELY}])
fields("Context")

# ---------------------------------------------------------------- ThreadedWriter (C19): queue / thread axioms
ghost("ENQ", "seq_val")        # everything ever put on the writer's queue, in order (other threads only append: rely)
ghost("DEQ", "seq_val")        # everything taken off it, in order
contract("iface::Queue.put", params=["self", "item"], returns="none",
         notes="queue.SimpleQueue.put: atomically appends the item; never blocks, never raises (unbounded FIFO)",
         modifies=["#ENQ"], ensures=[("enqueued", "ENQ == old(ENQ) + [item]")])
contract("iface::Queue.get", params=["self"], returns="Any", ghosts={"MORE": "seq", "REST": "seq"},
         notes="queue.SimpleQueue.get: blocks until an item is available and returns the oldest one not yet taken (FIFO); meanwhile other "
               "threads may have appended more items (the queue history only grows)",
         modifies=["#ENQ", "#DEQ"],
         ensures=[("fifo: the oldest item not yet taken", "ENQ == old(ENQ) + MORE and DEQ == old(DEQ) + [result] and ENQ == DEQ + REST")])
contract("iface::Thread.start", params=["self"], returns="none", modifies=["#THREADS"],
         notes="threading.Thread.start: starts one new thread running the target",
         ensures=[("started", "THREADS == old(THREADS) + [Ev('thread.start', self)]")])
contract("iface::ext.twisted.application.service.Service.startService", params=["svc"], returns="none", modifies=["svc.running"],
         notes="twisted Service.startService: marks the service running (Twisted is absent; stubbed for replay)")
contract("iface::ext.twisted.application.service.Service.stopService", params=["svc"], returns="none", modifies=["svc.running"],
         notes="twisted Service.stopService: marks the service stopped")
contract("iface::ext.twisted.internet.threads.deferToThreadPool", params=["reactor", "pool", "f"], returns="Any", modifies=["#THREADS"],
         notes="deferToThreadPool(reactor, pool, f): a Deferred that fires after f (here Thread.join) has run in a pool thread",
         ensures=[("deferred-join", "THREADS == old(THREADS) + [Ev('defer', f)]")])
contract("iface::Reactor.getThreadPool", params=["self"], returns="Any", modifies=[], notes="reactor.getThreadPool()")
fields("ThreadedWriter", _destination="role:Dest", _queue="role:Queue", _mainReactor="role:Reactor", _thread="Opt[role:Thread]")
fields("role:Thread", join="Any")

# ---------------------------------------------------------------- readers (C20): library models
contract("iface::ext.pprint.pformat", params=["object", "width"], defaults={"width": 80}, returns="str", modifies=[],
         notes="pprint.pformat(value, width=...): returns a str for JSON-decoded values (dict/list/str/int/float/bool/None); never raises for them")
fields("role:DateTime", is_utc_="bool", of_="Any")
contract("iface::ext.datetime.datetime.utcfromtimestamp", params=["t"], returns="role:DateTime", modifies=[],
         ensures=[("the-utc-reading-of-that-timestamp", "fresh(result) and result.is_utc_ == True and result.of_ == box(t)")],
         notes="datetime.utcfromtimestamp(t) for a float timestamp in the platform's range (Eliot's timestamps are time.time() values): a datetime; "
               "out-of-range or non-numeric values raise (known finding C20-F2)")
contract("iface::ext.datetime.datetime.fromtimestamp", params=["t"], returns="role:DateTime", modifies=[], notes="as utcfromtimestamp, local time",
         ensures=[("the-local-reading-of-that-timestamp", "fresh(result) and result.is_utc_ == False and result.of_ == box(t)")])
contract("iface::DateTime.isoformat", params=["self", "sep"], defaults={"sep": "T"}, returns="str", modifies=[], notes="datetime.isoformat(sep): a function of the instant, of utc/local and of the separator",
         ensures=[("text-of-that-reading", "result == iso_text(self.of_, self.is_utc_, sep)")])
contract("iface::ext.json.dumps", returns="str", modifies=[], notes="json.dumps of a JSON-decoded value (any separators/cls): returns a str without raw newlines; never raises for such values")
contract("iface::ext.json.loads", params=["s"], returns="Any", modifies=[],
         notes="json.loads(line): any JSON value (dict, list, str, int, float, bool, None) or raises a ValueError subclass (JSONDecodeError, "
               "UnicodeDecodeError) -- RecursionError for pathological nesting is handled separately; keys of a JSON object are str",
         ensures=[("object-keys-are-text", "implies(is_dict(result), forall(lambda k: implies(contains(dict_of(result), k), is_str(k)), 'val'))")],
         raises=[{"cls": "ValueError", "exact": False, "ensures": []}, {"cls": "RecursionError", "exact": False, "ensures": []}])

global_hint("eliot/prettyprint.py:stdin", "role:LineStream")
global_hint("eliot/prettyprint.py:stdout", "role:OutStream")
contract("iface::OutStream.write", params=["self", "text"], returns="Any", modifies=["#IO"],
         notes="sys.stdout.write(text): appends to the output (recorded); never raises for str",
         ensures=[("recorded", "IO == old(IO) + [Ev('out', self, text)]")])
contract("iface::ext.argparse.ArgumentParser", returns="role:ArgParser", modifies=[], notes="argparse.ArgumentParser(...)")
contract("iface::ArgParser.add_argument", returns="Any", modifies=[], notes="ArgumentParser.add_argument(...)")
contract("iface::ArgParser.parse_args", params=["self"], returns="role:Args", modifies=[], notes="ArgumentParser.parse_args(): the parsed options")
fields("role:Args", compact="bool", local_timezone="bool")

contract("iface::Eval.__call__", returns="Any", modifies=["#CALLS"],
         notes="eval(code, globals, locals) of the user's filter expression: an arbitrary computation over the supplied locals; returns anything or raises anything",
         ensures=[("recorded", "CALLS == old(CALLS) + [Ev('ret', self, args, kwargs, result)]")],
         raises=[{"cls": "BaseException", "ensures": [("recorded", "CALLS == old(CALLS) + [Ev('exc', self, args, kwargs, exc)]")]}])

contract("iface::TestCase.assertEqual", params=["self", "first", "second"], returns="none", modifies=["#CALLS"],
         notes="unittest.TestCase.assertEqual(a, b): returns iff a == b (dict equality for two dict objects, value identity for primitives), raises AssertionError otherwise",
         ensures=[("equal", "ite(is_ref(first) and is_ref(second), dict_of(first) == dict_of(second), first == second)"), ("recorded", "CALLS == old(CALLS) + [Ev('assertEqual', self, first, second)]")],
         raises=[{"cls": "AssertionError", "ensures": [("not-equal", "not ite(is_ref(first) and is_ref(second), dict_of(first) == dict_of(second), first == second)"), ("recorded", "CALLS == old(CALLS)")]}])
contract("iface::TestCase.assertTrue", params=["self", "expr", "msg"], defaults={"msg": None}, returns="none", modifies=[],
         notes="unittest.TestCase.assertTrue(x): returns iff x is truthy, raises AssertionError otherwise",
         ensures=[("truthy", "truthy(expr)")], raises=[{"cls": "AssertionError", "ensures": [("falsy", "not truthy(expr)")]}])
