"""Contracts for eliot/logwriter.py (C19)."""
from pyvc.spec import contract, fields, specfun, global_hint

W = "eliot/logwriter.py::"
specfun("STOP", [], "box(lookup_global('eliot/logwriter.py', '_STOP'))")

contract(W + "ThreadedWriter.__call__", props=["C19"], types={"data": "Any"}, returns="none",
         modifies=["#ENQ"],
         ensures=[("only-enqueues: the caller's thread never runs the wrapped destination", "ENQ == old(ENQ) + [data] and OFFERS == old(OFFERS) and IO == old(IO)", ["C19"])])

contract(W + "ThreadedWriter._reader", props=["C19"], returns="none",
         ghosts={"DELIV": "seq", "NEWO": "seqe", "REST": "seq", "GROWN": "seq"}, ghost_defaults={"DELIV": "seq(())", "NEWO": "empty_log()", "GROWN": "seq(())"},
         after={"Queue.get#0": [("REST", "REST"), ("GROWN", "GROWN + MORE")], "Dest.__call__#0": [("NEWO", "NEWO + [Ev('offer', self, message, False)]"), ("DELIV", "DELIV + [message]")]},
         after_raise={"Dest.__call__#0": [("NEWO", "NEWO + [Ev('offer', self, message, True, exc)]"), ("DELIV", "DELIV + [message]")]},
         requires=[("queue-well-formed: what was dequeued is a prefix of what was enqueued", "ENQ == DEQ + REST")],
         modifies=["#ENQ", "#DEQ", "#OFFERS", "#IO", "#NTOP"],
         loops={0: {"locals": {"DELIV": "seq", "NEWO": "seqe", "REST": "seq", "GROWN": "seq"}, "modifies": ["#ENQ", "#DEQ", "#OFFERS", "#IO", "#NTOP"],
                    "inv": [("everything-dequeued-so-far-was-passed-to-the-destination-once-in-order",
                             "DEQ == old(DEQ) + DELIV and OFFERS == old(OFFERS) + NEWO and proj_b(NEWO) == DELIV and all_tag(NEWO, 'offer') "
                             "and all_a(NEWO, self._destination) and all_b_not(DELIV, STOP())"),
                            ("queue-history-only-grows-and-is-consumed-in-order", "ENQ == old(ENQ) + GROWN and ENQ == DEQ + REST"),
                            ("destination-unchanged", "self._destination == old(self._destination) and self._queue == old(self._queue)")]}},
         nonterminating_ok=True,
         ensures=[("returns-only-after-the-stop-marker-with-everything-before-it-delivered-once-in-order",
                   "DEQ == old(DEQ) + DELIV + [STOP()] and OFFERS == old(OFFERS) + NEWO and proj_b(NEWO) == DELIV and all_tag(NEWO, 'offer') and all_b_not(DELIV, STOP())", ["C19"]),
                  ("every-delivery-went-to-the-wrapped-destination", "all_a(NEWO, self._destination)", ["C19"]),
                  ("dequeued-in-enqueue-order", "ENQ == DEQ + REST and ENQ == old(ENQ) + GROWN", ["C19"])])

contract(W + "ThreadedWriter.startService", props=["C19"], returns="none",
         requires=[("current-ok", "cur_ok()")],
         modifies=["*"],
         ensures=[("one-writer-thread-started-running-_reader", "len(THREADS) == len(old(THREADS)) + 2 and THREADS[len(old(THREADS))].tag == 'thread.new' "
                   "and THREADS[len(old(THREADS)) + 1].tag == 'thread.start' and THREADS[len(old(THREADS)) + 1].a == THREADS[len(old(THREADS))].a "
                   "and box(self._thread) == THREADS[len(old(THREADS))].a", ["C19"])],
         raises=[{"cls": "BaseException", "ensures": []}])

contract(W + "ThreadedWriter.stopService", props=["C19"], returns="Any",
         requires=[("started", "self._thread is not None")],
         modifies=["*"],
         ensures=[("stop-marker-enqueued-behind-everything-pending-and-join-deferred",
                   "last(THREADS).tag == 'defer' and ENQ == old(ENQ) + [STOP()] and DEQ == old(DEQ)", ["C19"])],
         raises=[{"cls": "ValueError", "ensures": [("not-registered: nothing enqueued", "ENQ == old(ENQ)")]}])
