"""Property-level lemmas over the contract shapes (CONTRACTS.md section L). Each is a small closed z3 query; the hypotheses are
exactly the postcondition shapes proved for the real functions (named in the doc string), so a lemma is only as good as those."""
import z3
from pyvc.spec import lemma


def crash_prefix(eng):
    """C11. FileDestination.__call__::post:exactly-one-write-then-one-flush gives: the I/O trace of n returned logging calls plus the one
    in flight is  [write(l_1), flush, ..., write(l_n), flush] ++ tail  with tail a prefix of [write(l_{n+1}), flush].  io model
    (contracts/common.py File.write/flush): a write appends to the user-space buffer, a flush moves the buffer to the OS; at process
    death the file holds everything flushed plus a prefix of what is buffered.  Claim: for every crash index c into the trace, the file
    holds the lines of all calls that returned before c, in order, followed by at most one incomplete fragment."""
    n, c, acked, flushed_lines, pending = z3.Ints("n c acked flushed_lines pending")
    hyps = [n >= 0, 0 <= c, c <= 2 * n + 2,
            # event 2k is write(l_{k+1}), event 2k+1 its flush; a call has returned iff both its events lie before c
            acked >= 0, 2 * acked <= c, z3.Implies(acked < n + 1, 2 * (acked + 1) > c),
            # lines flushed: flush events before c; pending: a write before c whose flush is not
            flushed_lines == c / 2, pending == c % 2]
    return [("acknowledged-lines-are-complete-and-in-order", hyps, flushed_lines >= acked),
            ("at-most-one-fragment", hyps, z3.And(pending >= 0, pending <= 1)),
            ("no-line-beyond-the-calls-made", hyps, flushed_lines + pending <= n + 1),
            ("nothing-pending-between-calls", hyps, z3.Implies(c == 2 * acked, pending == 0))]


lemma("crash_prefix", crash_prefix, ["C11"], crash_prefix.__doc__)


def context_commutation(eng):
    """C05. Every context-touching function proved `other-contexts-untouched` (forall c != me. CTX[c] == old(CTX[c])) and reads the current
    action only through CTX[me].  Claim: steps of two different contexts commute on CTX, so every per-context history (hence attribution of
    messages and children) is independent of the schedule."""
    Val = eng_val()
    CTX0 = z3.Array("CTX0", z3.IntSort(), Val)
    c1, c2 = z3.Ints("c1 c2")
    v1, v2 = z3.Consts("v1 v2", Val)
    # a step of context ci may change only CTX[ci], to a value that depends only on CTX[ci] (vi is arbitrary)
    a_then_b = z3.Store(z3.Store(CTX0, c1, v1), c2, v2)
    b_then_a = z3.Store(z3.Store(CTX0, c2, v2), c1, v1)
    k = z3.Int("k")
    return [("steps-of-different-contexts-commute", [c1 != c2], a_then_b == b_then_a),
            ("a-step-leaves-other-contexts-alone", [c1 != c2], z3.Select(z3.Store(CTX0, c1, v1), c2) == z3.Select(CTX0, c2))]


def eng_val():
    from pyvc.sorts import Val
    return Val


lemma("context_commutation", context_commutation, ["C05"], context_commutation.__doc__)
