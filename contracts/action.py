"""Contracts for eliot/_action.py (CONTRACTS.md section A)."""
from pyvc.spec import contract, fields, specfun

A = "eliot/_action.py::"

specfun("level_of", ["tl"], "seq(tl._level)")

contract(A + "TaskLevel.__init__", props=["C02"],
         types={"level": "list[int]"},
         modifies=["self._level"],
         ensures=[("aliases-argument", "self._level is level")])

contract(A + "TaskLevel.as_list", props=["C02"],
         returns="list[int]",
         ensures=[("content", "seq(result) == level_of(self)"),
                  ("level-unchanged", "level_of(self) == old(level_of(self))")])

contract(A + "TaskLevel.child", props=["C02", "C01"],
         returns="TaskLevel",
         ensures=[("appends-1", "level_of(result) == old(level_of(self)) + [1]"),
                  ("fresh-result", "fresh(result) and fresh(result._level)"),
                  ("level-unchanged", "level_of(self) == old(level_of(self))")])

contract(A + "TaskLevel.next_sibling", props=["C02", "C01"],
         requires=[("nonempty", "len(level_of(self)) >= 1")],
         returns="TaskLevel",
         ensures=[("increments-last", "level_of(result) == old(level_of(self))[:-1] + [old(level_of(self))[-1] + 1]"),
                  ("fresh-result", "fresh(result) and fresh(result._level)"),
                  ("level-unchanged", "level_of(self) == old(level_of(self))")])

contract(A + "TaskLevel.parent", props=["C09", "C02"],
         returns="Opt[TaskLevel]",
         ensures=[("root-has-none", "implies(len(old(level_of(self))) == 0, result is None)"),
                  ("drops-last", "implies(len(old(level_of(self))) > 0, result is not None and level_of(typed(result, 'TaskLevel')) == old(level_of(self))[:-1])"),
                  ("level-unchanged", "level_of(self) == old(level_of(self))")])
