"""Contracts for eliot/_action.py (CONTRACTS.md section A)."""
from pyvc.spec import contract, fields, specfun

A = "eliot/_action.py::"

specfun("level_of", ["tl"], "seq(tl._level)")

contract(A + "TaskLevel.__init__", props=["C02"],
         types={"level": "list[int]"},
         modifies=["self._level"],
         ensures=[("aliases-argument", "self._level is level")])

contract(A + "TaskLevel.as_list", props=["C02"],
         returns="list[int]",
         ensures=[("content", "seq(result) == level_of(self)"),
                  ("level-unchanged", "level_of(self) == old(level_of(self))")])

contract(A + "TaskLevel.child", props=["C02", "C01"],
         returns="TaskLevel",
         ensures=[("appends-1", "level_of(result) == old(level_of(self)) + [1]"),
                  ("fresh-result", "fresh(result) and fresh(result._level)"),
                  ("level-unchanged", "level_of(self) == old(level_of(self))")])

contract(A + "TaskLevel.next_sibling", props=["C02", "C01"],
         requires=[("nonempty", "len(level_of(self)) >= 1")],
         returns="TaskLevel",
         ensures=[("increments-last", "level_of(result) == old(level_of(self))[:-1] + [old(level_of(self))[-1] + 1]"),
                  ("fresh-result", "fresh(result) and fresh(result._level)"),
                  ("level-unchanged", "level_of(self) == old(level_of(self))")])

contract(A + "TaskLevel.parent", props=["C09", "C02"],
         returns="Opt[TaskLevel]",
         ensures=[("root-has-none", "implies(len(old(level_of(self))) == 0, result is None)"),
                  ("drops-last", "implies(len(old(level_of(self))) > 0, result is not None and level_of(typed(result, 'TaskLevel')) == old(level_of(self))[:-1])"),
                  ("level-unchanged", "level_of(self) == old(level_of(self))")])

# ------------------------------------------------------------------------------------------------ Action
contract(A + "Action.__init__", props=["C02", "C03"], constructor=True,
         types={"logger": "Opt[role:ILogger]", "task_uuid": "Any", "task_level": "TaskLevel", "action_type": "Any", "serializers": "Opt[_ActionSerializers]"},
         modifies=["self._successFields", "self._logger", "self._task_level", "self._last_child", "self._identification",
                   "self._serializers", "self._finished"],
         ensures=[("rep-ok", "rep_ok(self)"),
                  ("no-position-yet", "self._last_child is None"),
                  ("not-finished", "self._finished == False"),
                  ("no-success-fields", "dom(self._successFields) == setof()"),
                  ("identity", "uu(self) == task_uuid and atype(self) == action_type and self._task_level is task_level"),
                  ("serializers", "self._serializers is serializers"),
                  ("logger", "implies(logger is not None, box(self._logger) == logger)"),
                  ("fresh-dicts", "fresh(self._successFields) and fresh(self._identification)")])

contract(A + "Action._nextTaskLevel", props=["C02", "C01", "C06"],
         requires=[("rep-ok", "rep_ok(self)")],
         modifies=["self._last_child"],
         returns="TaskLevel",
         ensures=[("next-position", "level_of(result) == old(lvl(self)) + [old(pos(self)) + 1]"),
                  ("counter-advances", "pos(self) == old(pos(self)) + 1"),
                  ("result-is-last-child", "self._last_child is result"),
                  ("rep-ok", "rep_ok(self)"),
                  ("own-level-unchanged", "lvl(self) == old(lvl(self))")])

START_KEYS = "'action_status', 'timestamp', 'task_uuid', 'action_type', 'task_level'"

contract(A + "Action._start", props=["C02", "C03", "C13", "C01", "C07"],
         types={"fields": "dict"},
         requires=[("rep-ok", "rep_ok(self)"), ("unstarted", "self._last_child is None"),
                   ("not-current", "curact() is not self"), ("current-ok", "cur_ok()"),
                   ("fields-private", "private_dict(fields) and private_to(fields, self)")],
         modifies=["dict(fields)", "#LOG", "#OFFERS", "#CALLS", "#IO", "field:_last_child"],
         returns="none",
         ghosts={"R": "seqe"}, after={"ILogger.write#0": [("R", "R")]},
         ensures=[("one-start-write-then-only-reports", "LOG == old(LOG) + [write_ev(self._logger, fields, "
                   "ite(self._serializers is None, None, typed(self._serializers, '_ActionSerializers').start))] + R and all_reports(R)", ["C03", "C13"]),
                  ("status-started", "dget(fields, 'action_status') == 'started'", ["C03"]),
                  ("timestamp-float", "is_float(dget(fields, 'timestamp'))", ["C02"]),
                  ("identification", "dget(fields, 'task_uuid') == uu(self) and dget(fields, 'action_type') == atype(self)", ["C02"]),
                  ("start-at-position-1", "seq(dget(fields, 'task_level')) == lvl(self) + [1]", ["C02"]),
                  ("caller-fields-kept", "without(fields, %s) == without(old(dict_of(fields)), %s)" % (START_KEYS, START_KEYS), ["C01", "C03"]),
                  ("keys", "dom(fields) == dom(update(old(dict_of(fields)), {'action_status': 1, 'timestamp': 1, 'task_uuid': 1, 'action_type': 1, 'task_level': 1}))"),
                  ("position-consumed", "pos(self) == 1 and rep_ok(self)", ["C02"]),
                  ("positions-elsewhere", "only_changed('_last_child', self, curact())", ["C02"]),
                  ("success-fields-untouched", "dict_of(self._successFields) == old(dict_of(self._successFields))", ["C03"]),
                  ("current-action-advances", "implies(curact() is not None, pos(typed(curact(), 'Action')) >= old(pos(typed(curact(), 'Action'))))"),
                  ("current-ok", "cur_ok()")])

contract(A + "current_action", props=["C04", "C05"], returns="Opt[Action]",
         ensures=[("reads-current-context", "box(result) == curact()"),
                  ("context-untouched", "CTX == old(CTX)")])

TOKEN_OK = ("isinst(self._parent_token, 'Token', True) and typed(self._parent_token, 'Token').tok_used == False "
            "and typed(self._parent_token, 'Token').tok_ctx == me")

contract(A + "Action.run", props=["C04", "C05", "C07"],
         types={"f": "role:UserCode"}, returns="Any",
         modifies=["*"],
         ensures=[("context-restored", "CTX[me] == old(CTX[me])", ["C04"]),
                  ("other-contexts-untouched", "forall(lambda c: implies(c != me, CTX[c] == old(CTX[c])), 'int')", ["C05"]),
                  ("ran-inside-action", "last(CALLS).e == box(self)", ["C04"]),
                  ("called-once-with-same-arguments", "NTOP[f] == old(NTOP[f]) + 1 and last(CALLS).a == box(f) and LASTF == box(f) and LASTARGS == old(seq(args)) "
                   "and LASTKW == old(dict_of(kwargs))", ["C07"]),
                  ("result-passed-through", "last(CALLS).tag == 'ret' and last(CALLS).d == box(result)", ["C07"])],
         raises=[{"cls": "BaseException",
                  "ensures": [("context-restored", "CTX[me] == old(CTX[me])", ["C04"]),
                              ("other-contexts-untouched", "forall(lambda c: implies(c != me, CTX[c] == old(CTX[c])), 'int')", ["C05"]),
                              ("ran-inside-action", "last(CALLS).e == box(self)", ["C04"]),
                              ("same-exception-object", "last(CALLS).tag == 'exc' and last(CALLS).d == box(exc) and last(CALLS).a == box(f)", ["C07"]),
                              ("called-once", "NTOP[f] == old(NTOP[f]) + 1", ["C07"])]}])

contract(A + "Action.context", props=["C04", "C05"],
         modifies=["*"],
         at_yield=[("action-is-current", "CTX[me] == box(self)", ["C04"]),
                   ("yields-the-action", "yielded is self", ["C04"]),
                   ("other-contexts-untouched", "forall(lambda c: implies(c != me, CTX[c] == old(CTX[c])), 'int')", ["C05"])],
         ensures=[("context-restored", "CTX[me] == old(CTX[me])", ["C04"]),
                  ("other-contexts-untouched", "forall(lambda c: implies(c != me, CTX[c] == old(CTX[c])), 'int')", ["C05"]),
                  ("does-not-finish", "self._finished == old(self._finished) or True")],
         raises=[{"cls": "BaseException",
                  "ensures": [("context-restored", "CTX[me] == old(CTX[me])", ["C04"]),
                              ("other-contexts-untouched", "forall(lambda c: implies(c != me, CTX[c] == old(CTX[c])), 'int')", ["C05"]),
                              ("thrown-exception-propagates", "last(CALLS).tag == 'thrown' and last(CALLS).d == box(exc)", ["C04"])]}])

contract(A + "Action.__enter__", props=["C04", "C05", "C02"],
         modifies=["self._parent_token", "#CTX[me]"], returns="Action",
         ensures=[("action-is-current", "CTX[me] == box(self)", ["C04"]),
                  ("returns-self", "result is self"),
                  ("token-remembers-previous", TOKEN_OK + " and typed(self._parent_token, 'Token').tok_old == old(CTX[me])", ["C04"]),
                  ("token-fresh", "fresh(typed(self._parent_token, 'Token'))"),
                  ("other-contexts-untouched", "forall(lambda c: implies(c != me, CTX[c] == old(CTX[c])), 'int')", ["C05"])])

LOGGING_FRAME = ["#LOG", "#OFFERS", "#CALLS", "#IO", "#NTOP", "field:_last_child"]
OTHER_REPORTS = "forall(lambda i: implies(len(old(LOG)) <= i and i < len(LOG) and i != J, is_report(LOG[i])), 'int')"

contract(A + "Action.finish", props=["C03", "C02", "C13", "C07"], shards=4,
         types={"exception": "Opt[Exc]"}, returns="none",
         ghosts={"R1": "seqe", "R2": "seqe", "E": "ev"}, ghost_defaults={"R1": "empty_log()"},
         after={"ILogger.write#0": [("R2", "R"), ("E", "write_ev(self, dictionary, serializer)")],
                "ErrorExtraction.get_fields_for_exception#0": [("R1", "R")]},
         requires=[("rep-ok", "rep_ok(self)"), ("current-ok", "cur_ok()"), ("E12-dicts-owned", "owns_success_fields(self)"),
                   ("finished-implies-started", "implies(self._finished, self._last_child is not None)")],
         modifies=LOGGING_FRAME + ["self._finished", "dict(self._successFields)"],
         ensures=[("finishing-again-emits-nothing", "implies(old(self._finished), LOG == old(LOG) and pos(self) == old(pos(self)) and self._finished)", ["C03"]),
                  ("marked-finished", "self._finished == True", ["C03"]),
                  ("exactly-one-end-message",
                   "implies(not old(self._finished), LOG == old(LOG) + R1 + [E] + R2 and all_reports(R1) and all_reports(R2) "
                   "and E.tag == 'write' and E.a == box(self._logger) "
                   "and E.d == ite(exception is None, 'succeeded', 'failed') "
                   "and E.g == uu(self) "
                   "and seq(E.f) == lvl(self) + [ival(last(seq(E.f)))] and ival(last(seq(E.f))) > old(pos(self)) "
                   "and implies(curact() is not self, ival(last(seq(E.f))) == old(pos(self)) + 1) "
                   "and E.c == ite(self._serializers is None, None, ite(exception is None, typed(self._serializers, '_ActionSerializers').success, typed(self._serializers, '_ActionSerializers').failure)) "
                   "and dget(E.b, 'action_type') == atype(self) and is_float(dget(E.b, 'timestamp')) "
                   "and implies(exception is not None, dget(E.b, 'exception') == cls_module_name(exception) and is_str(dget(E.b, 'reason'))))", ["C03", "C02", "C13"]),
                  ("end-is-last", "implies(not old(self._finished) and curact() is not self, pos(self) == old(pos(self)) + 1)", ["C02"]),
                  # expected to FAIL: known finding C02-F1 (known_findings.json); if it ever proves, the finding is stale
                  ("end-is-last-even-inside-own-context", "implies(not old(self._finished), pos(self) == old(pos(self)) + 1)", ["C02"]),
                  ("rep-ok", "rep_ok(self) and cur_ok()"),
                  ("positions-elsewhere", "only_changed('_last_child', self, curact())", ["C02"]),
                  ("own-level-unchanged", "lvl(self) == old(lvl(self)) and uu(self) == old(uu(self))")])

FINISH_GHOSTS = dict(ghosts={"R1": "seqe", "R2": "seqe", "E": "ev"}, ghost_defaults={"R1": "empty_log()"})

contract(A + "Action.__exit__", props=["C03", "C02", "C04", "C05", "C07"],
         types={"type": "Any", "exception": "Opt[Exc]", "traceback": "Any"}, returns="none",
         ghosts={"R1": "seqe", "R2": "seqe", "E": "ev"},
         after={"Action.finish#0": [("R1", "R1"), ("R2", "R2"), ("E", "E")]},
         # C04: the block has been left *before* the end message is written -- whatever finishing logs on the way out (failure reports,
         # tracebacks of broken extractors) and whatever happens if writing fails sees the previous action as the current one
         call_tokens={"Action.finish#0": "CTX[me] == old(typed(self._parent_token, 'Token').tok_old)"},
         requires=[("rep-ok", "rep_ok(self)"), ("entered", TOKEN_OK),
                   ("body-restored-context", "CTX[me] == box(self)"),
                   ("not-already-current-when-entered", "typed(self._parent_token, 'Token').tok_old != box(self)"),
                   ("not-finished", "not self._finished")],
         assumes=[("E13 rely at block exit: the action that was current when the block was entered is an Action (or none) that still satisfies its "
                   "representation invariant and owns its dicts -- application code changes actions only through the API, whose functions preserve rep_ok",
                   "(typed(self._parent_token, 'Token').tok_old == UNSET or typed(self._parent_token, 'Token').tok_old is None or isinst(typed(self._parent_token, 'Token').tok_old, 'Action', True)) and "
                   "implies(typed(self._parent_token, 'Token').tok_old != UNSET and typed(self._parent_token, 'Token').tok_old is not None, "
                   "rep_ok(typed(typed(self._parent_token, 'Token').tok_old, 'Action')) and "
                   "ref(self._successFields) != ref(typed(typed(self._parent_token, 'Token').tok_old, 'Action')._identification))")],
         modifies=LOGGING_FRAME + ["self._finished", "self._parent_token", "#CTX[me]", "field:tok_used", "dict(self._successFields)"],
         ensures=[("context-restored", "CTX[me] == old(typed(self._parent_token, 'Token').tok_old)", ["C04"]),
                  ("other-contexts-untouched", "forall(lambda c: implies(c != me, CTX[c] == old(CTX[c])), 'int')", ["C05"]),
                  ("token-cleared", "self._parent_token is None", ["C04"]),
                  ("returns-none-so-exception-propagates", "result is None", ["C03"]),
                  ("finished", "self._finished == True", ["C03"]),
                  ("exactly-one-end-message",
                   "LOG == old(LOG) + R1 + [E] + R2 and all_reports(R1) and all_reports(R2) and E.tag == 'write' "
                   "and E.d == ite(exception is None, 'succeeded', 'failed') and E.g == uu(self) "
                   "and seq(E.f) == lvl(self) + [old(pos(self)) + 1]", ["C03", "C02"]),
                  ("end-is-last", "pos(self) == old(pos(self)) + 1", ["C02"])])

contract(A + "Action.addSuccessFields", props=["C03", "C07"], types={"fields": "dict"}, returns="none",
         modifies=["dict(self._successFields)"],
         ensures=[("merged", "dict_of(self._successFields) == update(old(dict_of(self._successFields)), old(dict_of(fields)))", ["C03"]),
                  ("nothing-logged", "LOG == old(LOG)", ["C03"])])

contract(A + "Action.child", props=["C02", "C01", "C04"],
         types={"logger": "Opt[role:ILogger]", "action_type": "Any", "serializers": "Opt[_ActionSerializers]"}, returns="Action",
         requires=[("rep-ok", "rep_ok(self)")],
         modifies=["self._last_child"],
         ensures=[("fresh-action", "fresh(result)"),
                  ("same-task", "uu(result) == uu(self)", ["C02"]),
                  ("level-extends-parent-at-next-position", "lvl(result) == old(lvl(self)) + [old(pos(self)) + 1]", ["C02"]),
                  ("parent-position-consumed", "pos(self) == old(pos(self)) + 1 and rep_ok(self)", ["C02"]),
                  ("child-unstarted", "result._last_child is None and rep_ok(result) and result._finished == False"),
                  ("child-fields", "atype(result) == action_type and result._serializers is serializers and implies(logger is not None, box(result._logger) == logger)"),
                  ("child-dicts-private", "fresh(result._successFields) and fresh(result._identification)")])

LOG_KEYS = "'timestamp', 'task_uuid', 'task_level', 'message_type'"
contract(A + "Action.log", props=["C02", "C01", "C07", "C13"], shards=3,
         types={"message_type": "Any", "fields": "dict[__eliot_logger__?=role:ILogger;*=Any]"}, returns="none",
         ghosts={"R": "seqe", "L": "Any", "SER": "Any", "DOFF": "seqe"},
         snapshots={"ILogger.write#0": [("L", "box(self)"), ("SER", "box(serializer)")]},
         after={"ILogger.write#0": [("R", "R"), ("DOFF", "DOFF")]},
         requires=[("rep-ok", "rep_ok(self)"), ("current-ok", "cur_ok()"),
                   ("fields-private", "private_dict(fields) and private_to(fields, self)")],
         modifies=LOGGING_FRAME + ["dict(fields)"],
         ensures=[("one-write-then-only-reports", "LOG == old(LOG) + [write_ev(L, fields, SER)] + R and all_reports(R)", ["C01", "C02"]),
                  ("offers-appended", "OFFERS == old(OFFERS) + DOFF"),
                  ("logger-chosen", "L == old(dget(fields, '__eliot_logger__', self._logger)) and SER == old(dget(fields, '__eliot_serializer__', None))", ["C13"]),
                  ("placed-at-next-position", "seq(dget(fields, 'task_level')) == old(lvl(self)) + [old(pos(self)) + 1]", ["C02"]),
                  ("task-uuid", "dget(fields, 'task_uuid') == uu(self) and dget(fields, 'message_type') == message_type and is_float(dget(fields, 'timestamp'))", ["C02"]),
                  ("caller-fields-kept", "without(fields, %s) == without(old(dict_of(fields)), %s, '__eliot_logger__', '__eliot_serializer__')" % (LOG_KEYS, LOG_KEYS), ["C01"]),
                  ("position-consumed", "pos(self) >= old(pos(self)) + 1 and implies(curact() is not self, pos(self) == old(pos(self)) + 1) and rep_ok(self)", ["C02"]),
                  ("positions-elsewhere", "only_changed('_last_child', self, curact())", ["C02"]),
                  ("current-ok", "cur_ok()")])

START_POST = [("one-start-write-then-only-reports", "LOG == old(LOG) + [write_ev(result._logger, E.b, "
               "ite(_serializers is None, None, typed(_serializers, '_ActionSerializers').start))] + R and all_reports(R) and E == LOG[len(old(LOG))]", ["C03", "C13"]),
              ("status-started", "E.d == 'started' and is_float(dget(E.b, 'timestamp'))", ["C03", "C02"]),
              ("action-type", "dget(E.b, 'action_type') == action_type and atype(result) == action_type"),
              ("start-at-position-1", "seq(E.f) == lvl(result) + [1] and E.g == uu(result)", ["C02"]),
              ("caller-fields-kept", "without(E.b, %s) == without(old(dict_of(fields)), %s)" % (START_KEYS, START_KEYS), ["C01"]),
              ("result-started", "fresh(result) and pos(result) == 1 and rep_ok(result) and result._finished == False and result._serializers is _serializers", ["C02"]),
              ("context-untouched", "CTX == old(CTX)", ["C04", "C05"]),
              ("current-ok", "cur_ok()")]
START_TYPES = {"logger": "Opt[role:ILogger]", "action_type": "Any", "_serializers": "Opt[_ActionSerializers]", "fields": "dict"}

contract(A + "startTask", props=["C02", "C04", "C01", "C07", "C13"], types=START_TYPES, returns="Action",
         ghosts={"R": "seqe", "E": "ev"}, after={"Action._start#0": [("R", "R"), ("E", "write_ev(self._logger, fields, ite(self._serializers is None, None, typed(self._serializers, '_ActionSerializers').start))")]},
         requires=[("current-ok", "cur_ok()")],
         modifies=LOGGING_FRAME + ["dict(fields)", "field:$uuid_str"],
         ensures=START_POST + [("new-tree-whatever-the-context", "seq(result._task_level._level) == []", ["C04"]),
                               ("fresh-uuid", "is_str(uu(result))", ["C02"]),
                               ("positions-elsewhere", "only_changed('_last_child', result, curact())", ["C02"])])

contract(A + "start_action", props=["C02", "C04", "C05", "C01", "C07", "C13"], types=START_TYPES, returns="Action",
         ghosts={"R": "seqe", "E": "ev"},
         after={"Action._start#0": [("R", "R"), ("E", "write_ev(self._logger, fields, ite(self._serializers is None, None, typed(self._serializers, '_ActionSerializers').start))")],
                "startTask#0": [("R", "R"), ("E", "E")]},
         requires=[("current-ok", "cur_ok()"),
 ],
         modifies=LOGGING_FRAME + ["dict(fields)", "field:$uuid_str"],
         ensures=START_POST + [
             ("no-current-action-starts-a-task", "implies(curact() is None, seq(result._task_level._level) == [])", ["C04"]),
             ("child-of-the-current-action", "implies(curact() is not None, uu(result) == old(uu(typed(curact(), 'Action'))) and "
              "lvl(result) == old(lvl(typed(curact(), 'Action'))) + [old(pos(typed(curact(), 'Action'))) + 1])", ["C04", "C02", "C05"]),
             ("parent-position-consumed", "implies(curact() is not None, pos(typed(curact(), 'Action')) >= old(pos(typed(curact(), 'Action'))) + 1)", ["C02"]),
             ("positions-elsewhere", "only_changed('_last_child', result, curact())", ["C02"])])

contract(A + "log_message", props=["C02", "C04", "C05", "C01", "C07", "C08"],
         types={"message_type": "Any", "fields": "dict[__eliot_logger__?=role:ILogger;*=Any]"}, returns="none",
         ghosts={"R": "seqe", "E": "ev", "DOFF": "seqe"},
         after={"Action.log#0": [("R", "R"), ("E", "write_ev(L, fields, SER)"), ("DOFF", "DOFF")]},
         requires=[("current-ok", "cur_ok()"),
                   ("no-field-named-self", "'self' not in fields")],
         modifies=LOGGING_FRAME + ["dict(fields)", "field:$uuid_str"],
         ensures=[("one-write-then-only-reports", "LOG == old(LOG) + [E] + R and all_reports(R) and E.tag == 'write'", ["C01", "C02"]),
                  ("offers-appended", "OFFERS == old(OFFERS) + DOFF"),
                  ("message-type", "E.e == message_type and E.d is None or 'action_status' in old(dict_of(fields))"),
                  ("serializer", "E.c == old(dget(fields, '__eliot_serializer__', None))", ["C13"]),
                  ("in-current-action", "implies(curact() is not None, E.g == old(uu(typed(curact(), 'Action'))) and "
                   "seq(E.f) == old(lvl(typed(curact(), 'Action'))) + [old(pos(typed(curact(), 'Action'))) + 1])", ["C04", "C02", "C05"]),
                  ("own-task-when-no-current-action", "implies(curact() is None, seq(E.f) == [1] and is_str(E.g))", ["C04", "C02"]),
                  ("current-action-advances", "implies(curact() is not None, pos(typed(curact(), 'Action')) >= old(pos(typed(curact(), 'Action'))) + 1)", ["C02"]),
                  ("positions-elsewhere", "only_changed('_last_child', curact())", ["C02"]),
                  ("context-untouched", "CTX == old(CTX)", ["C04", "C05"]),
                  ("current-ok", "cur_ok()")])

# ------------------------------------------------------------------------------------------------ task ids (C06)
contract(A + "TaskLevel.toString", props=["C06"], returns="str",
         ensures=[("level-codec", "result == levelstr(self._level)", ["C06"])])

contract(A + "TaskLevel.fromString", props=["C06"], types={"string": "str"}, returns="TaskLevel",
         free={"L": "seq"}, assumes=[("string library axioms, instance for L", "codec_facts('', L)")],
         ensures=[("decodes-the-level-codec", "fresh(result) and fresh(result._level) and implies(all_nat(L) and string == levelstr(L), level_of(result) == L)", ["C06"])],
         raises=[{"cls": "ValueError", "ensures": [("only-for-non-level-strings", "implies(all_nat(L), string != levelstr(L))", ["C06"])]}])

contract(A + "Action.serialize_task_id", props=["C06", "C02"], returns="bytes",
         requires=[("rep-ok", "rep_ok(self)"), ("uuid-is-ascii-text", "is_str(uu(self)) and ascii_ok(sval(uu(self)))"),
                   ("level-strings-are-ascii", "forall(lambda l: ascii_ok(levelstr(l)), 'seq')")],
         modifies=["self._last_child"],
         ensures=[("id-is-uuid-at-next-level", "result == bytes_of(sval(uu(self)) + '@' + levelstr(old(lvl(self)) + [old(pos(self)) + 1]))", ["C06"]),
                  ("reserves-a-fresh-position", "pos(self) == old(pos(self)) + 1 and rep_ok(self)", ["C06", "C02"])])

specfun("id_text", ["t"], "ite(is_bytes(t), typed(t, 'bytes_as_str'), sval(t))")

contract(A + "Action.continue_task", props=["C06", "C02"],
         types={"logger": "Opt[role:ILogger]", "task_id": "Any", "action_type": "Any", "_serializers": "Opt[_ActionSerializers]", "fields": "dict"},
         returns="Action",
         free={"U": "str", "L": "seq"}, assumes=[("string library axioms, instance for U, L", "codec_facts(U, L)")],
         ghost_args={"TaskLevel.fromString#0": {"L": "L"}},
         ghosts={"R": "seqe", "E": "ev"},
         after={"Action._start#0": [("R", "R"), ("E", "write_ev(self._logger, fields, ite(self._serializers is None, None, typed(self._serializers, '_ActionSerializers').start))")]},
         requires=[("current-ok", "cur_ok()"),
                   ("id-is-bytes-or-text-or-missing", "is_bytes(task_id) or is_str(task_id) or box(task_id) == box(lookup_global('eliot/_action.py', '_TASK_ID_NOT_SUPPLIED'))")],
         modifies=LOGGING_FRAME + ["dict(fields)"],
         ensures=[("continues-the-same-task-at-exactly-that-position",
                   "implies(all_nat(L) and not str_contains(U, '@') and id_text(task_id) == U + '@' + levelstr(L), uu(result) == U and lvl(result) == L)", ["C06"]),
                  ("start-message-at-position-1", "LOG == old(LOG) + [E] + R and all_reports(R) and E.d == 'started' and seq(E.f) == lvl(result) + [1] and E.g == uu(result) "
                   "and dget(E.b, 'action_type') == action_type", ["C06", "C02"]),
                  ("result-started", "fresh(result) and pos(result) == 1 and rep_ok(result) and result._finished == False", ["C06"]),
                  ("context-untouched", "CTX == old(CTX)", ["C04", "C05"])],
         raises=[{"cls": "RuntimeError", "when": "box(task_id) == box(lookup_global('eliot/_action.py', '_TASK_ID_NOT_SUPPLIED'))", "iff": True, "ensures": []},
                 {"cls": "Exception", "ensures": [("malformed-ids-only", "not (all_nat(L) and not str_contains(U, '@') and ascii_ok(U) and id_text(task_id) == U + '@' + levelstr(L))", ["C06"])]}])

contract(A + "preserve_context", props=["C06"], types={"f": "role:UserCode"}, returns="Any",
         requires=[("current-ok", "cur_ok()"),
                   ("uuid-is-ascii-text", "implies(curact() is not None, is_str(uu(typed(curact(), 'Action'))) and ascii_ok(sval(uu(typed(curact(), 'Action')))))"),
                   ("level-strings-are-ascii", "forall(lambda l: ascii_ok(levelstr(l)), 'seq')")],
         modifies=["field:_last_child", "field:locked_flag"],
         ensures=[("no-current-action-returns-the-function-itself", "implies(curact() is None, result is f and pos_unchanged())", ["C06"]),
                  ("otherwise-reserves-exactly-one-position", "implies(curact() is not None, pos(typed(curact(), 'Action')) == old(pos(typed(curact(), 'Action'))) + 1 and result is not f and result is not None)", ["C06"]),
                  ("context-untouched", "CTX == old(CTX)", ["C04"])])
specfun("pos_unchanged", [], "only_changed('_last_child')")

contract(A + "preserve_context.restore_eliot_context", props=["C06"], types={"args": "tuple", "kwargs": "dict"}, returns="Any",
         free={"f": "role:UserCode", "called": "Lock", "task_id": "bytes", "U": "str", "L": "seq", "action": "Action"},
         ghost_args={"Action.continue_task#0": {"U": "U", "L": "L"}},
         call_tokens={"UserCode.__call__#0": "held(called)"},
         ghosts={"RAN": "bool", "RET": "Any", "CARGS": "seq", "CKW": "Any", "INSIDE": "Any", "CONT": "Any"}, ghost_defaults={"RAN": "False", "INSIDE": "None", "CONT": "None"},
         after={"UserCode.__call__#0": [("RAN", "True"), ("RET", "box(result)"), ("CARGS", "old(LASTARGS)"), ("CKW", "old(LASTKW)"), ("INSIDE", "old(CTX[me])")],
                "Action.continue_task#0": [("CONT", "box(result)")]},
         after_raise={"UserCode.__call__#0": [("RAN", "True"), ("INSIDE", "old(CTX[me])")]},
         assumes=[("string library axioms, instance for U, L", "codec_facts(U, L)")],
         requires=[("current-ok", "cur_ok()"),
                   ("the-id-came-from-serialize_task_id", "all_nat(L) and not str_contains(U, '@') and ascii_ok(U) and task_id == bytes_of(U + '@' + levelstr(L))"),
                   ("E12-dicts-owned", "True")],
         modifies=["*"],
         ensures=[("first-caller-runs-the-function-once-and-passes-its-result-through",
                   "not old(is_locked(called)) and RAN and box(result) == RET", ["C06"]),
                  ("the-callable-stays-used-up", "is_locked(called)", ["C06"]),
                  ("the-function-runs-inside-the-action-that-continues-the-task-at-the-reserved-position (never directly in the originating action)",
                   "CONT is not None and INSIDE == CONT", ["C06", "C01"]),
                  ("the-function-gets-the-very-same-arguments", "CARGS == old(seq(args)) and CKW == old(dict_of(kwargs))", ["C06"]),
                  ("context-restored", "CTX[me] == old(CTX[me])", ["C04", "C05"])],
         raises=[{"cls": "TooManyCalls", "when": "old(is_locked(called))", "iff": True,
                  "ensures": [("every-other-call-raises-TooManyCalls-without-running-the-function", "NTOP[f] == old(NTOP[f]) and LOG == old(LOG)", ["C06"])]},
                 {"cls": "BaseException", "ensures": [("the-function's-own-exception-passes-through", "not old(is_locked(called)) and CTX[me] == old(CTX[me])", ["C06"]),
                              ("nothing-else-raises: the function was called", "RAN", ["C06"]),
                              ("the-callable-stays-used-up-also-after-a-failing-call (at most once, whatever the outcome)", "is_locked(called)", ["C06"]),
                              ("a-failing-function-also-ran-inside-the-continuing-action", "implies(RAN, CONT is not None and INSIDE == CONT)", ["C06", "C01"])]}])
specfun("is_locked", ["l"], "typed(l.locked_flag, 'bool')")
specfun("last_user_call_returned", ["f", "r"], "True")

# ------------------------------------------------------------------------------------------------ log_call (C18)
contract(A + "log_call.logging_wrapper", props=["C18"], shards=8, types={"args": "tuple", "kwargs": "dict"}, returns="Any",
         free={"wrapped_function": "role:UserCode", "action_type": "Any", "include_args": "Opt[list[str]]", "include_result": "bool"},
         ghosts={"RET": "Any", "EXC": "Any", "NCALLS": "int", "BOUND": "Any", "STARTF": "Any", "ADDED": "bool", "CARGS": "seq", "CKW": "Any", "INSIDE": "Any", "STARTD": "Any"},
         ghost_defaults={"NCALLS": "0", "ADDED": "False"},
         snapshots={"Action._start#0": [("STARTD", "dict_of(fields)")]},
         after={"UserCode.__call__#0": [("RET", "box(result)"), ("NCALLS", "NCALLS + 1"), ("CARGS", "old(LASTARGS)"), ("CKW", "old(LASTKW)"), ("INSIDE", "old(CTX[me])")],
                "Action._start#0": [("STARTF", "box(fields)")],
                "Action.addSuccessFields#0": [("ADDED", "True")]},
         after_raise={"UserCode.__call__#0": [("EXC", "box(exc)"), ("NCALLS", "NCALLS + 1"), ("CARGS", "old(LASTARGS)"), ("CKW", "old(LASTKW)"), ("INSIDE", "old(CTX[me])")]},
         requires=[("current-ok", "cur_ok()"),
                   ("include_args-were-checked-against-the-signature-at-decoration-time",
                    "implies(include_args is not None, forall(lambda k: implies(contains(seq(typed(include_args, 'list')), k), contains(params_of(wrapped_function), k)), 'val'))")],
         modifies=["*"],
         ensures=[("same-return-value-whether-or-not-the-result-is-logged", "box(result) == RET and NCALLS == 1", ["C18"]),
                  ("called-with-the-very-same-arguments", "CARGS == old(seq(args)) and CKW == old(dict_of(kwargs))", ["C18"]),
                  ("result-logged-iff-include_result", "ADDED == include_result", ["C18"]),
                  ("start-message-holds-the-arguments-as-python-binds-them-without-self-restricted-to-include_args",
                   "STARTD == ite(include_args is None, without(bound_args(wrapped_function, old(seq(args)), old(dict_of(kwargs))), 'self'), "
                   "restrict(without(bound_args(wrapped_function, old(seq(args)), old(dict_of(kwargs))), 'self'), setof_seq(old(seq(typed(include_args, 'list'))))))", ["C18"]),
                  ("context-restored", "CTX[me] == old(CTX[me])", ["C04"])],
         raises=[{"cls": "BaseException",
                  "ensures": [("either-the-call-did-not-bind-and-the-function-never-ran-or-its-own-exception-object-propagates",
                               "(NCALLS == 0 and isinst(exc, 'TypeError')) or (NCALLS == 1 and box(exc) == EXC)", ["C18"]),
                              ("context-restored", "CTX[me] == old(CTX[me])", ["C04"])]}])
