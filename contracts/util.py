"""Contracts for eliot/_util.py."""
from pyvc.spec import contract

U = "eliot/_util.py::"
for name in ("safeunicode", "saferepr"):
    contract(U + name, props=["C07", "C03", "C08"], types={"o": "Any"}, returns="str",
             modifies=["#CALLS", "#NTOP"],
             ensures=[("total-returns-text", "True"), ("calls-grow", "prefix_of(old(CALLS), CALLS)"),
                      ("the-value's-own-text-or-the-documented-fallback",
                       "len(CALLS) == len(old(CALLS)) or (last(CALLS).tag == 'ret' and box(result) == last(CALLS).d) or "
                       "(last(CALLS).tag == 'exc' and result == 'eliot: unknown, str() raised exception')")],
             notes="total: returns a str for every object, whatever its __str__/__repr__ does (raises=None: no exception escapes)")
