"""Contracts for eliot/prettyprint.py and eliot/filter.py (C20)."""
from pyvc.spec import contract, fields, specfun, global_hint

P = "eliot/prettyprint.py::"
F = "eliot/filter.py::"
MSG = "dict[task_uuid=str;task_level=list[int];timestamp=float;*=Any]"

contract(P + "_render_timestamp", props=["C20"], types={"message": MSG, "local_timezone": "bool"}, returns="str", modifies=[],
         ensures=[("the-iso-text-of-the-message's-timestamp-in-utc-marked-with-Z-unless-local-time-was-asked-for",
                   "result == ite(local_timezone, iso_text(dget(dict_of(message), 'timestamp'), False, 'T'), iso_text(dget(dict_of(message), 'timestamp'), True, 'T') + 'Z')", ["C20"])])

contract(P + "pretty_format.add_field", props=["C20"], types={"previous": "str", "key": "str", "value": "Any"}, returns="str", modifies=[],
         ensures=[("one-entry-naming-the-field", "str_contains(result, key)", ["C20"])])

SKIP = "setof('timestamp', 'task_uuid', 'task_level', 'message_type', 'action_type', 'action_status')"

contract(P + "pretty_format", props=["C20"], types={"message": MSG, "local_timezone": "bool"}, returns="str",
         ghosts={"REST": "seq", "KEYS": "seq", "NFIRST": "int"}, ghost_defaults={"REST": "seq(())", "NFIRST": "0"},
         after={"pretty_format.add_field#*": [("NFIRST", "NFIRST + ite(contains(%s, key), 1, 0)" % SKIP), ("REST", "REST + filter_out([key], %s)" % SKIP)]},
         requires=[("field-names-are-text", "forall(lambda k: implies(contains(dict_of(message), k), is_str(k)), 'val')")],
         modifies=[],
         loops={1: {"locals": {"REST": "seq"}, "modifies": [],
                    "inv": [("every-non-header-field-so-far-rendered-exactly-once-in-order", "REST == filter_out(_done, %s)" % SKIP),
                            ("remember-the-enumeration", "KEYS == _s")], "ghost_init": [("KEYS", "_s")]}},
         ensures=[("starts-with-the-task-uuid", "str_startswith(result, sval(dget(dict_of(message), 'task_uuid')))", ["C20"]),
                  ("type-and-status-fields-first", "NFIRST == ite('action_type' in message, 1, 0) + ite('message_type' in message, 1, 0) + ite('action_status' in message, 1, 0)", ["C20"]),
                  ("then-every-remaining-field-exactly-once", "REST == filter_out(KEYS, %s) and len(KEYS) == card(message) and "
                   "forall(lambda k: contains(KEYS, k) == contains(dict_of(message), k), 'val')" % SKIP, ["C20"])])

contract(P + "compact_format", props=["C20"], types={"message": MSG, "local_timezone": "bool"}, returns="str",
         requires=[("field-names-are-text", "forall(lambda k: implies(contains(dict_of(message), k), is_str(k)), 'val')")],
         modifies=[],
         loops={1: {"locals": {}, "modifies": ["dict(ORDERED)"], "inv": [("message-untouched", "dict_of(message) == old(dict_of(message))"),
                            ("ordered-keys-are-message-keys", "is_subset(dom(ORDERED), dom(message))"),
                            ("type-and-status-fields-plus-every-non-header-field-so-far-with-the-message's-values",
                             "dict_of(ORDERED) == restrict(message, union(setof('action_type', 'message_type', 'action_status'), setminus(setof_seq(_done), setof('timestamp', 'task_uuid', 'task_level', 'message_type', 'action_type', 'action_status'))))")],
                    "ghost_init": [("KEYS", "_s")]}},
         aliases={"ORDERED": 0}, ghosts={"KEYS": "seq"},
         ensures=[("accepts-every-eliot-message-and-returns-text", "dict_of(message) == old(dict_of(message))", ["C20"]),
                  ("starts-with-the-task-uuid", "str_startswith(result, sval(dget(dict_of(message), 'task_uuid')))", ["C20"]),
                  ("the-rendered-fields-are-the-type-and-status-fields-and-every-remaining-field-with-the-message's-values",
                   "dict_of(ORDERED) == restrict(message, union(setof('action_type', 'message_type', 'action_status'), setminus(dom(message), setof('timestamp', 'task_uuid', 'task_level', 'message_type', 'action_type', 'action_status'))))", ["C20"])])

contract(P + "_main", props=["C20"], returns="none",
         ghosts={"NOUT": "int", "NLINES": "int"}, ghost_defaults={"NOUT": "0"}, after={"OutStream.write#*": [("NOUT", "NOUT + 1")]},
         modifies=["#IO", "#CALLS", "#NTOP"],
         loops={0: {"locals": {"NOUT": "int"}, "modifies": ["#IO", "#CALLS", "#NTOP"],
                    "inv": [("every-input-line-so-far-produced-exactly-one-output-record-and-none-aborted-the-command", "NOUT == _i and NLINES == len(_s)")],
                    "ghost_init": [("NLINES", "len(_s)")]}},
         assumes=[("known finding C20-F2: objects that carry the three required fields are assumed well-typed Eliot messages "
                   "(ill-typed task_level / timestamp abort inside the formatter)", "True")],
         ensures=[("processes-every-line: one output record per input line, never aborting", "NOUT == NLINES", ["C20"])])

# ------------------------------------------------------------------------------------------------ eliot.filter
fields("EliotFilter", code="Any", incoming="role:LineStream", output="role:OutStream")

contract(F + "EliotFilter.run", props=["C20"], returns="none",
         ghosts={"NOUT": "int", "NSKIP": "int", "NLINES": "int"}, ghost_defaults={"NOUT": "0", "NSKIP": "0"},
         after={"OutStream.write#*": [("NOUT", "NOUT + 1")], "EliotFilter._evaluate#*": [("NSKIP", "NSKIP + ite(result is lookup_global('eliot/filter.py', 'EliotFilter')._SKIP, 1, 0)")]},
         modifies=["#IO", "#CALLS", "#NTOP"],
         loops={0: {"locals": {"NOUT": "int", "NSKIP": "int"}, "modifies": ["#IO", "#CALLS", "#NTOP"],
                    "inv": [("one-output-line-per-input-line-except-exactly-the-skipped-ones", "NOUT + NSKIP == _i and NLINES == len(_s)")],
                    "ghost_init": [("NLINES", "len(_s)")]}},
         ensures=[("writes-the-encoded-value-for-every-line-and-drops-exactly-the-SKIP-results", "NOUT + NSKIP == NLINES", ["C20"])],
         raises=[{"cls": "BaseException", "ensures": [("only-undecodable-input-or-a-failing-expression-stops-the-filter", "True")]}])

contract(F + "EliotFilter._evaluate", props=["C20"], types={"message": "Any"}, returns="Any", modifies=["#CALLS", "#NTOP"],
         ghosts={"LOCALS": "Any"}, after={"Eval.__call__#0": [("LOCALS", "seq(args)[0]")]},
         ensures=[("the-expression-sees-the-decoded-message-as-J-and-the-SKIP-marker", "dget(LOCALS, 'J') == message and dget(LOCALS, 'SKIP') == box(self._SKIP) and "
                   "contains(dict_of(LOCALS), 'datetime') and contains(dict_of(LOCALS), 'timedelta') and result == last(CALLS).d", ["C20"])],
         raises=[{"cls": "BaseException", "ensures": [("the-expression's-own-exception", "last(CALLS).tag == 'exc' and last(CALLS).d == box(exc)")]}])
