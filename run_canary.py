"""run_canary.py <canary id> [function substring]: apply one canary edit as an overlay and list the obligations that fail"""
import json, sys, subprocess, os
HERE = os.path.dirname(os.path.abspath(__file__))
REPO = os.environ.get("PYVC_REPO", "/repo")
c = [c for c in json.load(open(os.path.join(HERE, "canaries.json"))) if c["id"] == sys.argv[1]][0]
src = open(os.path.join(REPO, c["file"])).read()
assert src.count(c["old"]) == 1, "anchor not present exactly once"
overlay = {c["file"]: src.replace(c["old"], c["new"])}
sys.path.insert(0, HERE)
import contracts; contracts.load_all()
from pyvc import spec as SP
keys = [k for k in SP.CONTRACTS if k.startswith(c["file"] + "::") and (len(sys.argv) < 3 or sys.argv[2] in k)]
if c.get("functions"):
    keys = [k for k in SP.CONTRACTS if any(t in k for t in c["functions"])]
for k in keys:
    req = json.dumps({"key": k, "overlay": overlay, "z3_ms": 8000, "canary": False})
    p = subprocess.run(["python3-vt", "-m", "pyvc.worker"], input=req, capture_output=True, text=True, env=dict(os.environ, PYTHONPATH=HERE, PYVC_NO_EXTERNAL="1"))
    r = json.loads(p.stdout)
    bad = [o for o in r["obligations"] if o["verdict"] != "proved"]
    print(k, len(r["obligations"]), "obligations", len(bad), "not proved", r.get("error"))
    for o in bad[:8]:
        print("    ", o["verdict"], o["name"])
