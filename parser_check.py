"""Syntactic side check backing the class invariant assumed by Parser.add ("stored tasks hold only actions"): in /repo/eliot
  * `Parser(...)` is only ever constructed without arguments, and the `_tasks` field is only changed inside class Parser
    (transform paths / set keywords naming `_tasks` occur in eliot/parse.py::Parser methods only);
  * `Task(...)` is only ever constructed without arguments, and `_nodes` / `_completed` are only changed inside class Task.
So every Parser value reachable through Eliot's own code was built by Parser() and Parser.add, whose verified postcondition
re-establishes the invariant.  (Code outside /repo can of course build other values with PClass.set; that is outside the property.)"""
import ast, os, sys
REPO = os.environ.get("PYVC_REPO", "/repo")
OWN = {"_tasks": "Parser", "_nodes": "Task", "_completed": "Task"}
bad = []
for fn in sorted(os.listdir(os.path.join(REPO, "eliot"))):
    if not fn.endswith(".py"):
        continue
    tree = ast.parse(open(os.path.join(REPO, "eliot", fn)).read())
    cls_of = {}
    for c in ast.walk(tree):
        if isinstance(c, ast.ClassDef):
            for n in ast.walk(c):
                cls_of.setdefault(n, c.name)
    for n in ast.walk(tree):
        if isinstance(n, ast.Call):
            f = n.func
            if isinstance(f, ast.Name) and f.id in ("Parser", "Task") and (n.args or n.keywords):
                bad.append("%s:%d %s constructed with arguments" % (fn, n.lineno, f.id))
            if isinstance(f, ast.Attribute) and f.attr in ("transform", "set", "evolver"):
                names = [kw.arg for kw in n.keywords if kw.arg in OWN]
                for a in n.args:
                    if isinstance(a, (ast.List, ast.Tuple)) and a.elts and isinstance(a.elts[0], ast.Constant) and a.elts[0].value in OWN:
                        names.append(a.elts[0].value)
                for nm in names:
                    if not (fn == "parse.py" and cls_of.get(n) == OWN[nm]):
                        bad.append("%s:%d field %s changed outside class %s" % (fn, n.lineno, nm, OWN[nm]))
if bad:
    print("PARSER CHECK FAILED:\n  " + "\n  ".join(bad))
    sys.exit(1)
print("parser check ok")
