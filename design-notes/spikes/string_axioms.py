import time
from z3 import *
def prove(name, hyp, goal, to=30000):
    s = Solver(); s.set("timeout", to); s.add(hyp); s.add(Not(goal)); t=time.time(); r = s.check(); print(name, "proved" if r==unsat else r, "%.2fs"%(time.time()-t))
    if r==sat: print(s.model())
a,b,c,d = Strings("a b c d")
at = StringVal("@")
prove("split-unique", [Concat(a,at,b)==Concat(c,at,d), Not(Contains(a,at)), Not(Contains(c,at))], a==c)
prove("split-unique-2", [Concat(a,at,b)==Concat(c,at,d), Not(Contains(a,at)), Not(Contains(c,at))], b==d)
# uninterpreted split with axioms, used the way continue_task uses it
S = SeqSort(StringSort())
split = Function("split", StringSort(), StringSort(), S)
x,y = Strings("x y")
ax = ForAll([x,y], Implies(And(Not(Contains(x,at)), Not(Contains(y,at))), split(Concat(x,at,y), at) == Concat(Unit(x), Unit(y))))
lvl = Const("lvl", SeqSort(IntSort())); lstr = Function("lstr", SeqSort(IntSort()), StringSort()); parse = Function("parse", StringSort(), SeqSort(IntSort()))
l = Const("l", SeqSort(IntSort()))
ax2 = ForAll([l], And(parse(lstr(l)) == l, Not(Contains(lstr(l), at))))
uu = String("uu")
tid = Concat(uu, at, lstr(lvl))
parts = split(tid, at)
prove("continue_task decodes", [ax, ax2, Not(Contains(uu, at))], And(Length(parts)==2, parts[0]==uu, parse(parts[1])==lvl))
# lexicographic/prefix facts on Seq Int: child level extends parent's
p = Const("p", SeqSort(IntSort())); k = Int("k")
prove("child extends", [k>=1], And(PrefixOf(p, Concat(p, Unit(k))), Length(Concat(p,Unit(k)))==Length(p)+1))
q = Const("q", SeqSort(IntSort())); k2 = Int("k2")
prove("inj", [Concat(p,Unit(k))==Concat(q,Unit(k2))], And(p==q, k==k2))
