# C09/C01/C17/C06: bounded exhaustive parser check on real code + helpers vs parser
import itertools, json, io, random, sys, warnings
warnings.simplefilter("ignore")
from eliot import start_action, start_task, log_message, MemoryLogger, Action, preserve_context, write_traceback, log_call, ActionType, MessageType, Field, fields
from eliot.parse import Parser, Task
from eliot.testing import swap_logger, LoggedAction, LoggedMessage
from eliot._action import WrittenAction
from eliot._message import WrittenMessage

def gen_programs():
    # small programs as nested lists: ('a', type, [children], fail) / ('m', type) / ('r', [children]) remote subtask
    progs = []
    progs.append([('a','A',[('m','x')],False)])
    progs.append([('a','A',[('a','A',[('m','x'),('m','y')],True),('m','z')],False)])
    progs.append([('a','A',[('r',[('m','x')]),('m','after')],False)])
    progs.append([('m','lonely')])
    progs.append([('a','A',[('a','B',[('a','A',[],False)],False),('a','A',[],True)],False), ('m','solo')])
    progs.append([('a','A',[('r',[('a','A',[('r',[('m','deep')])],False)])],False)])
    return progs

def run(prog, ml):
    def do(node):
        if node[0]=='m': log_message(node[1], v=1)
        elif node[0]=='a':
            try:
                with start_action(action_type=node[1], k=2):
                    for c in node[2]: do(c)
                    if node[3]: raise KeyError("x")
            except KeyError: pass
        elif node[0]=='r':
            from eliot import current_action
            tid = current_action().serialize_task_id()
            with Action.continue_task(task_id=tid):
                for c in node[1]: do(c)
    for n in prog: do(n)

def tree(node):
    if isinstance(node, WrittenMessage): return ('m', node.contents.get('message_type'), tuple(node.task_level.level))
    return ('a', node.action_type, node.status, tuple(tree(c) for c in node.children))

bad = 0; total = 0
for prog in gen_programs():
    ml = MemoryLogger(); swap_logger(ml); run(prog, ml)
    msgs = [json.loads(json.dumps(m)) for m in ml.messages]
    uu = sorted(set(m['task_uuid'] for m in msgs))
    ref = {t.root().task_uuid if isinstance(t.root(), WrittenAction) else t.root().task_uuid: t for t in Parser.parse_stream(msgs)}
    assert all(t.is_complete() for t in ref.values()), "in-order not complete"
    n = len(msgs)
    perms = itertools.permutations(range(n)) if n <= 7 else (random.sample(range(n), n) for _ in range(3000))
    for p in perms:
        total += 1
        parser = Parser(); done = {}; count = {}
        seen = {u:0 for u in uu}; need = {u: sum(1 for m in msgs if m['task_uuid']==u) for u in uu}
        for i in p:
            m = msgs[i]; seen[m['task_uuid']] += 1
            completed, parser = parser.add(m)
            for t in completed:
                u = m['task_uuid']
                if seen[u] != need[u]: bad += 1; print("EARLY complete", prog, p)
                if u in done: bad += 1; print("DUP", prog)
                done[u] = t
            if seen[m['task_uuid']] == need[m['task_uuid']] and m['task_uuid'] not in done:
                bad += 1; print("LATE/never complete", prog, p); break
        if parser.incomplete_tasks(): bad += 1; print("leftover", prog, p)
        for u,t in done.items():
            if t != ref[u]: bad += 1; print("ORDER DEPENDENT", prog, p); break
    # subsets
    for r in range(1, n):
        for sub in itertools.combinations(range(n), r):
            total += 1
            try:
                ts = list(Parser.parse_stream([msgs[i] for i in sub]))
            except Exception as e:
                bad += 1; print("SUBSET raises", type(e).__name__, e, prog, sub); continue
            for t in ts:
                u = (t.root().task_uuid)
                if t.is_complete() and sum(1 for i in sub if msgs[i]['task_uuid']==u) != need[u]:
                    bad += 1; print("SUBSET complete early", prog, sub)
    # C17: helpers vs parser
    for typ in ('A','B'):
        try:
            las = LoggedAction.of_type(ml.messages, typ)
        except Exception as e:
            print("of_type raised", e); bad+=1; continue
        starts = [m for m in ml.messages if m.get('action_type')==typ and m['action_status']=='started']
        if len(las)!=len(starts): bad+=1; print("of_type count", typ, len(las), len(starts))
        def la_tree(la):
            return ('a', la.startMessage['action_type'], la.endMessage['action_status'], tuple(la_tree(c) if isinstance(c, LoggedAction) else ('m', c.message.get('message_type'), tuple(c.message['task_level'])) for c in la.children))
        for la in las:
            t = ref[la.startMessage['task_uuid']]
            node = t._nodes[__import__('eliot').parse.TaskLevel(level=la.startMessage['task_level'][:-1])]
            if la_tree(la) != tree(node):
                print("C17 differs from parser:", prog, "\n   helper", la_tree(la), "\n   parser", tree(node))
print("total", total, "bad", bad)
