import time
from z3 import *
Msg = DeclareSort("Msg"); S = SeqSort(Msg)
def prove(name, hyps, goal):
    s = Solver(); s.set("timeout", 20000); s.add(*hyps); s.add(Not(goal)); t=time.time(); r=s.check()
    print("  %-60s %s %.0fms" % (name, "proved" if r==unsat else ("REFUTED" if r==sat else "unknown"), 1000*(time.time()-t)))
old, cur, cur2 = Consts("old cur cur2", S); m = Const("m", Msg); k, k2 = Ints("k k2"); CAP = IntVal(1000)
A = Concat(old, Unit(m))
def inv(cur, k): return And(0 <= k, k <= Length(A), cur == Extract(A, k, Length(A)-k), Or(k == 0, Length(A)-k >= CAP))
print("== BufferingDestination.__call__  while len(self.messages) > 1000: self.messages.pop(0)")
prove("init", [cur == A, k == 0], inv(cur, k))
prove("pop(0) in bounds", [inv(cur,k), Length(cur) > CAP], Length(cur) >= 1)
prove("preserved", [inv(cur,k), Length(cur) > CAP, cur2 == Extract(cur, 1, Length(cur)-1), k2 == k+1], inv(cur2, k2))
spec = If(Length(A) <= CAP, A, Extract(A, Length(A)-CAP, CAP))
prove("exit => messages == (old+[m])[-1000:]", [inv(cur,k), Not(Length(cur) > CAP)], cur == spec)
prove("decreases len(messages)", [inv(cur,k), Length(cur) > CAP, cur2 == Extract(cur, 1, Length(cur)-1)], And(Length(cur2) < Length(cur), Length(cur2) >= 0))
# canary: cap check uses >= instead of >  (keeps 999)
prove("CANARY(>=) exit => spec  [must NOT be proved]", [inv(cur,k), Not(Length(cur) >= CAP)], cur == spec)

print("== Destinations.send loop 0 over a ghost offer trace (opaque dest call may raise)")
Dest = DeclareSort("Dest"); Exc = DeclareSort("Exc")
Off = Datatype("Off"); Off.declare("off", ("d", Dest), ("m", Msg)); Off = Off.create()
T = SeqSort(Off); DS = SeqSort(Dest); ES = SeqSort(Exc)
dests = Const("dests", DS); tr0, tr, tr2 = Consts("tr0 tr tr2", T); errs, errs2 = Consts("errs errs2", ES)
i = Int("i"); is_rep = Bool("is_rep"); fails = Function("fails", Dest, Msg, BoolSort()); exc_of = Function("exc_of", Dest, Msg, Exc)
# spec functions (uninterpreted, with unfolding axioms at i -> i+1): offers(i), errors(i)
offers = Function("offers", IntSort(), T); errors = Function("errors", IntSort(), ES)
j = Int("j")
ax = [offers(0) == Empty(T), errors(0) == Empty(ES),
      ForAll([j], Implies(And(0 <= j, j < Length(dests)), And(
          offers(j+1) == Concat(offers(j), Unit(Off.off(dests[j], m))),
          errors(j+1) == If(And(fails(dests[j], m), Not(is_rep)), Concat(errors(j), Unit(exc_of(dests[j], m))), errors(j)))))]
def inv2(tr, errs, i): return And(0 <= i, i <= Length(dests), tr == Concat(tr0, offers(i)), errs == errors(i))
prove("init", ax + [tr == tr0, errs == Empty(ES), i == 0], inv2(tr, errs, i))
d = dests[i]
body_ok   = [inv2(tr,errs,i), i < Length(dests), tr2 == Concat(tr, Unit(Off.off(d, m))), Not(fails(d,m)), errs2 == errs]
body_exc  = [inv2(tr,errs,i), i < Length(dests), tr2 == Concat(tr, Unit(Off.off(d, m))), fails(d,m), errs2 == If(Not(is_rep), Concat(errs, Unit(exc_of(d,m))), errs)]
prove("preserved [dest returns]", ax + body_ok, inv2(tr2, errs2, i+1))
prove("preserved [dest raises Exception, handler]", ax + body_exc, inv2(tr2, errs2, i+1))
prove("exit => every destination offered once, in order", ax + [inv2(tr,errs,i), Not(i < Length(dests))], tr == Concat(tr0, offers(Length(dests))))
# canary: handler appends even for reports
body_bad = [inv2(tr,errs,i), i < Length(dests), tr2 == Concat(tr, Unit(Off.off(d, m))), fails(d,m), errs2 == Concat(errs, Unit(exc_of(d,m)))]
prove("CANARY(no report guard) preserved [must NOT be proved]", ax + body_bad, inv2(tr2, errs2, i+1))
