from eliot._generators import eliot_friendly_generator_function as eg
from eliot import start_action, current_action, MemoryLogger
from eliot.testing import swap_logger
swap_logger(MemoryLogger())
def g():
    x = yield 1
    try:
        y = yield x
    except KeyError as e:
        y = ("caught", e)
    yield y
    return 42
for fn in (g, eg(g)):
    it = fn()
    out = [next(it), it.send("sent")]
    err = KeyError("k")
    out.append(it.throw(err))
    try:
        next(it)
    except StopIteration as e:
        out.append(("return", e.value))
    print(out)
# context isolation
def body():
    with start_action(action_type="in_gen") as a:
        yield current_action() is a
        yield current_action() is a
w = eg(body)()
with start_action(action_type="driver1") as d1:
    print(next(w), current_action() is d1)
with start_action(action_type="driver2") as d2:
    print(next(w), current_action() is d2)
print(current_action())
w.close(); print(current_action())
