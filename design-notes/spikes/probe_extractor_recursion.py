import sys, io, json, threading
import eliot
from eliot import start_action, MemoryLogger, register_exception_extractor, Logger, log_message
from eliot.testing import swap_logger
from eliot._errors import _error_extraction

def run(label, f):
    try:
        r = f()
        print(label, "-> returned", repr(r)[:200])
    except BaseException as e:
        print(label, "-> RAISED", type(e).__name__, str(e)[:120])

# C07: extractor registered for Exception that always raises
ml = MemoryLogger(); swap_logger(ml)
def bad(e): raise RuntimeError("extractor bug")
register_exception_extractor(Exception, bad)
def body():
    try:
        with start_action(action_type="a"):
            raise ValueError("app")
    except ValueError as e:
        return "app exception propagated"
run("C07 always-raising extractor for Exception", body)
print(len(ml.messages))
del _error_extraction.registry[Exception]
# extractor for ValueError raising ValueError
ml.reset()
def bad2(e): raise ValueError("again")
register_exception_extractor(ValueError, bad2)
run("C07 ValueError extractor raising ValueError", body)
del _error_extraction.registry[ValueError]
ml.reset()
# extractor for ValueError raising KeyError: fine
def bad3(e): raise KeyError("again")
register_exception_extractor(ValueError, bad3)
run("C07 ValueError extractor raising KeyError", body)
print([m.get("message_type") or m.get("action_status") for m in ml.messages])
del _error_extraction.registry[ValueError]
