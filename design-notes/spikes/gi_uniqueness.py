# feasibility: TaskLevel arithmetic + uniqueness invariant with z3 Seq(Int) and quantified global invariant
import time
from z3 import *
L = SeqSort(IntSort())
Act = DeclareSort("Act")
U = StringSort()
level = Function("level", Act, L); uuid = Function("uuid", Act, U); count = Function("count", Act, IntSort())
alive = Function("alive", Act, BoolSort())
used = Function("used", U, L, BoolSort())
a, b = Consts("a b", Act); u = Const("u", U); l = Const("l", L); j = Int("j")
def GI(level, uuid, count, alive, used):
    return And(
      ForAll([a,b], Implies(And(alive(a), alive(b), uuid(a)==uuid(b), level(a)==level(b)), a==b)),
      ForAll([a], Implies(alive(a), count(a) >= 0)),
      # every used level belongs to the namespace of a live action, within its counter
      ForAll([u,l], Implies(used(u,l), And(Length(l) >= 1,
             Exists([b], And(alive(b), uuid(b)==u, level(b)==Extract(l,0,Length(l)-1), l[Length(l)-1] >= 1, l[Length(l)-1] <= count(b)))))),
    )
# step: _nextTaskLevel on action x: result = level(x)++[count(x)+1]; count' = count+1; used' = used ∪ {result}
x = Const("x", Act)
res = Concat(level(x), Unit(count(x)+1))
count2 = Function("count2", Act, IntSort()); used2 = Function("used2", U, L, BoolSort())
step = And(alive(x),
   ForAll([a], count2(a) == If(a==x, count(x)+1, count(a))),
   ForAll([u,l], used2(u,l) == Or(used(u,l), And(u==uuid(x), l==res))))
def prove(name, hyp, goal, to=20000):
    s = Solver(); s.set("timeout", to); s.add(hyp); s.add(Not(goal)); t=time.time(); r = s.check(); print(name, "unsat=proved" if r==unsat else r, "%.2fs"%(time.time()-t))
    if r==sat: print(s.model())
prove("fresh", And(GI(level,uuid,count,alive,used), step), Not(used(uuid(x), res)))
# preservation of third conjunct split
G2 = GI(level,uuid,count2,alive,used2)
for i,c in enumerate(G2.children()):
    prove("preserve[%d]"%i, And(GI(level,uuid,count,alive,used), step), c)
# vacuity: hypothesis must be satisfiable
s = Solver(); s.set("timeout", 20000); s.add(GI(level,uuid,count,alive,used), step); print("hyp sat?", s.check())
# broken variant: counter not incremented -> result = level ++ [count]
res_bad = Concat(level(x), Unit(count(x)))
step_bad = And(alive(x), count(x) >= 1, used(uuid(x), res_bad))
prove("fresh-broken (expect sat)", And(GI(level,uuid,count,alive,used), step_bad), Not(used(uuid(x), res_bad)))
