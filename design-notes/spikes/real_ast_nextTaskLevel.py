"""Throw-away spike: symbolic execution of real eliot functions -> z3 obligations.
Validates: component heap model, Seq Int levels, exceptions as outcomes, opaque calls, loop invariants."""
import ast, sys, time, itertools
from z3 import *

SRC = {}
def load(path):
    if path not in SRC: SRC[path] = ast.parse(open("/repo/"+path).read())
    return SRC[path]
def find(path, qual):
    node = load(path)
    for part in qual.split("."):
        node = next(n for n in node.body if isinstance(n,(ast.FunctionDef,ast.ClassDef)) and n.name==part)
    return node

Obj = DeclareSort("Obj")
IntSeq = SeqSort(IntSort())
class Heap:
    """one z3 array per (class, field): Ref(Int) -> sort"""
    def __init__(self, sorts): self.sorts = sorts; self.arr = {k: Array("H0_"+k, IntSort(), s) for k,s in sorts.items()}; self.n=0
    def copy(self): h = Heap.__new__(Heap); h.sorts=self.sorts; h.arr=dict(self.arr); h.n=self.n; return h
    def get(self, f, r): return Select(self.arr[f], r)
    def set(self, f, r, v): self.arr[f] = Store(self.arr[f], r, v)

class St:
    def __init__(s, heap): s.loc={}; s.heap=heap; s.pc=[]; s.fresh=0; s.alloc=Int("alloc0"); s.obl=[]
    def copy(s):
        t=St.__new__(St); t.loc=dict(s.loc); t.heap=s.heap.copy(); t.pc=list(s.pc); t.fresh=s.fresh; t.alloc=s.alloc; t.obl=s.obl; return t
    def new(s, prefix, sort):
        s.fresh+=1; return Const("%s_%d_%d"%(prefix,s.fresh,id(s)%9973), sort)

# value wrappers: ('int',z3) ('seq',z3) ('ref',cls,z3) ('none',) ('optref',cls,z3,isnone)
NONE = ("none",)
class Exec:
    def __init__(self, classes, contracts): self.classes=classes; self.contracts=contracts
    def new_ref(self, st):
        r = st.new("ref", IntSort()); st.pc.append(r > st.alloc); st.alloc = r; return r
    # ---- expressions: returns list of (state, value) or (state, ('RAISE', what))
    def ev(self, e, st):
        if isinstance(e, ast.Constant):
            if e.value is None: return NONE
            if isinstance(e.value, bool): return ("bool", BoolVal(e.value))
            if isinstance(e.value, int): return ("int", IntVal(e.value))
            raise NotImplementedError(e.value)
        if isinstance(e, ast.Name): return st.loc[e.id]
        if isinstance(e, ast.Attribute):
            b = self.ev(e.value, st)
            if b[0]=="ref":
                srt = st.heap.sorts[b[1]+"."+e.attr]
                v = st.heap.get(b[1]+"."+e.attr, b[2])
                return self.wrap(b[1]+"."+e.attr, v, st)
            raise NotImplementedError(ast.dump(e))
        if isinstance(e, ast.Subscript) and isinstance(e.slice, ast.Slice) and e.slice.lower is None and e.slice.upper is None:
            b = self.ev(e.value, st); assert b[0]=="list"; r = self.new_ref(st)
            st.heap.set("list.items", r, st.heap.get("list.items", b[1])); return ("list", r)   # fresh copy
        if isinstance(e, ast.UnaryOp) and isinstance(e.op, ast.Not):
            b = self.ev(e.operand, st); return ("bool", Not(self.truth(b, st)))
        raise NotImplementedError(ast.dump(e))
    def wrap(self, key, v, st):
        kind = FIELD_KIND[key]
        if kind=="list": return ("list", v)
        if kind.startswith("opt:"): return ("optref", kind[4:], v)   # ref 0 encodes None
        if kind.startswith("ref:"): return ("ref", kind[4:], v)
        raise NotImplementedError(kind)
    def truth(self, v, st):
        if v[0]=="bool": return v[1]
        if v[0]=="optref": return v[2] != 0            # instances of classes without __bool__/__len__ are truthy (checked by frontend)
        if v[0]=="none": return BoolVal(False)
        raise NotImplementedError(v)

FIELD_KIND = {"TaskLevel._level":"list", "Action._last_child":"opt:TaskLevel", "Action._task_level":"ref:TaskLevel"}
HEAP_SORTS = {"TaskLevel._level": IntSort(), "Action._last_child": IntSort(), "Action._task_level": IntSort(), "list.items": IntSeq}

def prove(name, hyps, goal, timeout=20000):
    s = Solver(); s.set("timeout", timeout); s.add(*hyps); s.add(Not(goal)); t=time.time(); r=s.check()
    print("  %-70s %s %.0fms" % (name, ("proved" if r==unsat else "REFUTED" if r==sat else "unknown"), 1000*(time.time()-t)))
    if r==sat: print("     model:", s.model())
    return r==unsat

# ---------------- hand-driven execution of three real methods, statement by statement from the real AST -------------
def run_TaskLevel_method(name, self_ref, st, ex):
    """executes TaskLevel.child / next_sibling from the real AST. returns (st, result value)"""
    fn = find("eliot/_action.py", "TaskLevel."+name)
    st.loc = {"self": ("ref","TaskLevel", self_ref)}
    for stmt in fn.body:
        if isinstance(stmt, ast.Expr) and isinstance(stmt.value, ast.Constant): continue   # docstring
        if isinstance(stmt, ast.Assign):
            st.loc[stmt.targets[0].id] = ex.ev(stmt.value, st)
        elif isinstance(stmt, ast.AugAssign):     # new_level[-1] += 1
            tgt = stmt.target; lst = ex.ev(tgt.value, st); assert lst[0]=="list"
            idx = tgt.slice; assert isinstance(idx, ast.UnaryOp) and isinstance(idx.op, ast.USub) and idx.operand.value==1
            items = st.heap.get("list.items", lst[1])
            st.obl.append(("%s: index -1 in bounds" % name, list(st.pc), Length(items) >= 1))
            st.pc.append(Length(items) >= 1)
            inc = ex.ev(stmt.value, st)[1]
            n = Length(items)
            newitems = Concat(Extract(items, 0, n-1), Unit(items[n-1] + inc))
            st.heap.set("list.items", lst[1], newitems)
        elif isinstance(stmt, ast.Expr) and isinstance(stmt.value, ast.Call) and stmt.value.func.attr=="append":
            lst = ex.ev(stmt.value.func.value, st); arg = ex.ev(stmt.value.args[0], st)
            st.heap.set("list.items", lst[1], Concat(st.heap.get("list.items", lst[1]), Unit(arg[1])))
        elif isinstance(stmt, ast.Return):       # return TaskLevel(level=new_level)
            call = stmt.value; assert call.func.id=="TaskLevel"
            arg = ex.ev(call.keywords[0].value, st); r = ex.new_ref(st)
            st.heap.set("TaskLevel._level", r, arg[1])       # __init__: self._level = level
            return st, ("ref","TaskLevel", r)
        else: raise NotImplementedError(ast.dump(stmt))

def level_of(st, tl_ref): return st.heap.get("list.items", st.heap.get("TaskLevel._level", tl_ref))

print("== TaskLevel.child / next_sibling / Action._nextTaskLevel on the real AST")
heap = Heap(HEAP_SORTS); st = St(heap); ex = Exec(None, None)
a = Int("a"); POS = Int("POS")
tl = heap.get("Action._task_level", a); lc = heap.get("Action._last_child", a)
# rep_ok(Action a) with ghost POS
st.pc += [a > 0, a <= st.alloc, tl > 0, tl <= st.alloc, lc >= 0, lc <= st.alloc, POS >= 0,
          (lc == 0) == (POS == 0),
          Implies(POS > 0, level_of(st, lc) == Concat(level_of(st, tl), Unit(POS))),
          # separation: the list inside _last_child is not the list inside _task_level
          Implies(lc != 0, heap.get("TaskLevel._level", lc) != heap.get("TaskLevel._level", tl)),
          heap.get("TaskLevel._level", tl) > 0, heap.get("TaskLevel._level", tl) <= st.alloc,
          Implies(lc != 0, And(heap.get("TaskLevel._level", lc) > 0, heap.get("TaskLevel._level", lc) <= st.alloc))]
pre_level = level_of(st, tl)
fn = find("eliot/_action.py", "Action._nextTaskLevel")
iff = next(s for s in fn.body if isinstance(s, ast.If))
st.loc = {"self": ("ref","Action", a)}
cond = ex.truth(ex.ev(iff.test.operand, st), st)          # `if not self._last_child`
results = []
for branch, c in ((iff.body, Not(cond)), (iff.orelse, cond)):
    s2 = st.copy(); s2.pc.append(c); s2.loc = {"self": ("ref","Action", a)}
    asg = branch[0]; call = asg.value                        # self._last_child = self.X.method()
    recv = ex.ev(call.func.value, s2); meth = call.func.attr
    saved = dict(s2.loc); s2, res = run_TaskLevel_method(meth, recv[2], s2, ex); s2.loc = saved
    s2.heap.set("Action._last_child", a, res[2])
    results.append((meth, s2, res))
for meth, s2, res in results:
    for nm, pc, g in s2.obl: prove("obligation "+nm, pc, g)
    prove("_nextTaskLevel[%s]: result == level ++ [POS+1]" % meth, s2.pc, level_of(s2, res[2]) == Concat(pre_level, Unit(POS+1)))
    prove("_nextTaskLevel[%s]: frame: self._task_level's list unchanged" % meth, s2.pc, level_of(s2, tl) == pre_level)
    prove("_nextTaskLevel[%s]: rep_ok re-established (POS+1)" % meth, s2.pc,
          And(s2.heap.get("Action._last_child", a) != 0, level_of(s2, s2.heap.get("Action._last_child", a)) == Concat(level_of(s2, tl), Unit(POS+1))))
