import time, multiprocessing as mp
from z3 import *
def _run(q, build):
    name, hyps, goal = build()
    s = Solver(); s.add(*hyps); s.add(Not(goal)); r = s.check(); q.put((str(r), str(s.model())[:300] if r==sat else ""))
def prove(build, wall=10):
    name = build()[0]
    q = mp.Queue(); p = mp.Process(target=_run, args=(q, build)); t=time.time(); p.start(); p.join(wall)
    if p.is_alive(): p.kill(); p.join(); r=("timeout(hard kill)","")
    else: r = q.get()
    print("  %-66s %-18s %.0fms %s" % (name, {"unsat":"proved","sat":"REFUTED"}.get(r[0], r[0]), 1000*(time.time()-t), r[1][:160].replace("\n"," ")))
def mk(capval, which):
    def build():
        Msg = DeclareSort("Msg"); S = SeqSort(Msg)
        old, cur, cur2, dr, dr2, pre = Consts("old cur cur2 dr dr2 pre", S); m, x = Consts("m x", Msg)
        CAP = Int("CAP"); base = [CAP >= 1] if capval is None else [CAP == capval]
        A = Concat(old, Unit(m))
        inv = lambda cur, dr: And(A == Concat(dr, cur), Or(Length(dr) == 0, Length(cur) >= CAP))
        spec = lambda res: Exists([pre], And(A == Concat(pre, res), If(Length(A) <= CAP, Length(pre) == 0, Length(res) == CAP)))
        if which=="preserved": return ("preserved, CAP=%s"%capval, base+[inv(cur,dr), Length(cur) > CAP, cur == Concat(Unit(x), cur2), dr2 == Concat(dr, Unit(x))], inv(cur2, dr2))
        if which=="exit": return ("exit=>spec, CAP=%s"%capval, base+[inv(cur,dr), Not(Length(cur) > CAP)], spec(cur))
        if which=="canary_ge": return ("CANARY '>=' preserved, CAP=%s"%capval, base+[inv(cur,dr), Length(cur) >= CAP, cur == Concat(Unit(x), cur2), dr2 == Concat(dr, Unit(x))], inv(cur2, dr2))
        if which=="canary_noloop": return ("CANARY no loop exit=>spec, CAP=%s"%capval, base+[cur == A], spec(cur))
    return build
if __name__ == "__main__":
    for w in ("preserved","exit"): prove(mk(None, w))
    for w in ("canary_ge","canary_noloop"):
        prove(mk(None, w)); prove(mk(2, w))
