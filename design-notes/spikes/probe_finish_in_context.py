from eliot import start_action, Logger, log_message
from eliot._output import Destinations
import eliot._output as out
D = Logger._destinations
good = []
calls = {"n": 0}
def flaky(m):
    calls["n"] += 1
    if m.get("action_status") == "succeeded":
        raise RuntimeError("boom on end")
D.add(good.append, flaky)
def show():
    for m in good: print(m["task_level"], m.get("action_type") or m.get("message_type"), m.get("action_status",""))
    good.clear()
print("--- with-block (context reset before finish)")
with start_action(action_type="outer"):
    with start_action(action_type="inner"):
        pass
show()
print("--- explicit finish inside own context()")
a = start_action(action_type="top")
with a.context():
    log_message("m")
    a.finish()
show()
print("--- top-level with-block, end message fails")
with start_action(action_type="solo"):
    pass
show()
