# C12 race: logging thread preempted between fetching the buffering destination and calling it
import sys, threading
from eliot._output import Destinations, BufferingDestination
import eliot._output as out

D = Destinations()
got = []
at_call = threading.Event(); resume = threading.Event()
SEND_CODE = Destinations.send.__code__
# find line number of "dest(message)" in send
import inspect
src, start = inspect.getsourcelines(Destinations.send)
target = start + [i for i,l in enumerate(src) if l.strip()=="dest(message)"][0]
def tracer(frame, event, arg):
    if frame.f_code is SEND_CODE:
        def local(frame, event, arg):
            if event == "line" and frame.f_lineno == target and frame.f_locals["message"].get("n") == 2 and not at_call.is_set():
                at_call.set(); resume.wait()
            return local
        return local
    return None
def logger_thread():
    sys.settrace(tracer)
    D.send({"n": 1})
    D.send({"n": 2})   # preempted right before buffer(message)
    sys.settrace(None)
    D.send({"n": 3})
t = threading.Thread(target=logger_thread); t.start()
at_call.wait()
D.add(got.append)        # first add: hand-over happens while thread A holds the old buffer
resume.set(); t.join()
print("delivered:", got)
