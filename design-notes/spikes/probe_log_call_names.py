import sys, traceback, io, json
import eliot
from eliot import log_call, start_action, MemoryLogger, register_exception_extractor, Logger
from eliot.testing import swap_logger

def run(label, f):
    try:
        r = f()
        print(label, "-> returned", repr(r)[:200])
    except BaseException as e:
        print(label, "-> RAISED", type(e).__name__, str(e)[:200])

# C18: parameter names colliding with start_action keywords
ml = MemoryLogger(); swap_logger(ml)
@log_call
def f_logger(logger): return logger
@log_call
def f_action_type(action_type): return action_type
@log_call
def f_ser(_serializers): return 1
@log_call
def f_self(self, x): return (self, x)
@log_call
def f_task_id(task_id): return 1
run("C18 logger=5", lambda: f_logger(5))
run("C18 action_type='x'", lambda: f_action_type("x"))
run("C18 _serializers", lambda: f_ser(3))
run("C18 self param (plain function)", lambda: f_self(1, 2))
print([ (m.get('action_type'), m.get('action_status'), {k:v for k,v in m.items() if k not in ('task_uuid','timestamp','task_level')}) for m in ml.messages])
# positional-only params
ml.reset()
try:
    exec("@log_call\ndef g(a, /, b): return a+b\nprint('posonly', g(1, 2)); print('posonly kw', g(1, b=2))")
except BaseException as e:
    print("posonly RAISED", type(e).__name__, e)
# **kwargs containing key 'a' with positional-only a
try:
    exec("@log_call\ndef h(a, /, **kw): return (a, kw)\nprint('posonly+kw', h(1, a=2))")
except BaseException as e:
    print("posonly+kw RAISED", type(e).__name__, e)
