"""Smaller pieces of the parser invariant: are the prefix/frame lemmas within the solvers' reach at all?"""
import time, subprocess, sys, os, tempfile
from z3 import *
L = SeqSort(IntSort())
inS = Function("inS", L, BoolSort()); inS2 = Function("inS2", L, BoolSort())
subS = Function("subS", L, BoolSort()); subS2 = Function("subS2", L, BoolSort())
wit = Function("wit", L, L); wit2 = Function("wit2", L, L)
l, p, s = Consts("l p s", L); l0, P, X, sx = Consts("l0 P X sx", L); k0, k = Ints("k0 k")
ax = [l0 == Concat(P, Unit(k0)), Not(inS(l0)), ForAll([l], inS2(l) == Or(inS(l), l == l0))]
for (sub, ins, w) in ((subS, inS, wit), (subS2, inS2, wit2)):
    ax += [ForAll([p,s], Implies(And(ins(Concat(p,s)), Length(s) >= 1), sub(p))),
           ForAll([p], Implies(sub(p), And(ins(Concat(p, w(p))), Length(w(p)) >= 1)))]
notprefix = ForAll([sx], P != Concat(X, sx))
goals = {
  "sub_mono":    (ax, Implies(subS(X), subS2(X))),
  "sub_frame":   (ax + [notprefix], subS2(X) == subS(X)),
  "sub_onpath":  (ax + [P == Concat(X, sx)], subS2(X)),
  "ins_frame_direct": (ax + [notprefix], inS2(Concat(X, Unit(k))) == inS(Concat(X, Unit(k)))),
  "child_offpath": (ax + [notprefix], ForAll([sx], P != Concat(Concat(X, Unit(k)), sx))),
}
def check(name, hyp, goal, wall=40):
    s_ = Solver(); s_.add(*hyp); s_.add(Not(goal)); txt = "(set-logic ALL)\n" + s_.to_smt2()
    f = tempfile.NamedTemporaryFile("w", suffix=".smt2", delete=False); f.write(txt); f.close()
    out = []
    for cmd in (["z3-new", f.name], ["cvc5", "--strings-exp", f.name]):
        t = time.time()
        try: r = subprocess.run(cmd, capture_output=True, text=True, timeout=wall).stdout.strip().split("\n")[0]
        except subprocess.TimeoutExpired: r = "timeout"
        out.append("%s:%s(%.1fs)" % (cmd[0], r, time.time()-t))
    os.unlink(f.name); print("  %-20s %s" % (name, "  ".join(out)), flush=True)
for nm,(h,g) in goals.items(): check(nm, h, g)
