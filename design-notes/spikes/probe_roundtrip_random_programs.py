# C01 end-to-end: random programs over API styles -> real JSON file -> Parser -> compare with recorded execution
import random, json, tempfile, os, warnings, sys, asyncio
warnings.simplefilter("ignore")
import eliot
from eliot import (start_action, start_task, log_message, log_call, write_traceback, ActionType, MessageType, fields, Field,
                   Logger, FileDestination, current_action, Action)
from eliot.parse import Parser
from eliot._action import WrittenAction
from eliot._message import WrittenMessage

TA = ActionType("typed:act", fields(x=int), fields(y=int), "d")
TM = MessageType("typed:msg", fields(a=int), "d")
EXCS = [ValueError, KeyError, KeyboardInterrupt, GeneratorExit, asyncio.CancelledError, OSError]
VALUES = [0, -1, 2**63-1, 1.5, -0.0, "", "é\n \U0001F600", None, True, [1, [2, {"k": None}]], {"a": {"b": []}}]

def rnd_fields(r):
    return {"f%d" % i: r.choice(VALUES) for i in range(r.randint(0, 2))}

class Rec:  # recorded execution tree
    def __init__(s, kind, typ, flds=None): s.kind=kind; s.typ=typ; s.fields=flds or {}; s.kids=[]; s.status=None; s.endfields={}

def gen(r, depth, rec_parent):
    n = r.randint(0, 3 if depth < 3 else 1)
    for _ in range(n):
        c = r.random()
        if c < 0.30:
            f = rnd_fields(r); log_message("plain:msg", **f); rec_parent.kids.append(Rec("m", "plain:msg", f))
        elif c < 0.38:
            TM.log(a=7); rec_parent.kids.append(Rec("m", "typed:msg", {"a": 7}))
        elif c < 0.45:
            try: raise RuntimeError("tb")
            except RuntimeError: write_traceback()
            rec_parent.kids.append(Rec("m", "eliot:traceback"))
        else:
            style = r.choice(["with", "explicit", "run", "typed", "log_call", "task"])
            fail = r.random() < 0.3; exc_cls = r.choice(EXCS)
            f = rnd_fields(r)
            if style == "typed": node = Rec("a", "typed:act", {"x": 3})
            elif style == "log_call": node = Rec("a", "lc", {"p": 5})
            else: node = Rec("a", "act:"+style, f)
            def body():
                gen(r, depth+1, node)
                if fail: raise (exc_cls(5, "os") if exc_cls is OSError else exc_cls("boom"))
                return 99
            target = rec_parent
            try:
                if style == "with":
                    with start_action(action_type=node.typ, **f) as a:
                        body(); a.add_success_fields(r=1); node.endfields = {"r": 1}
                elif style == "typed":
                    with TA(x=3) as a:
                        body(); a.add_success_fields(y=4); node.endfields = {"y": 4}
                elif style == "explicit":
                    a = start_action(action_type=node.typ, **f)
                    try:
                        with a.context(): body()
                    except BaseException as e: a.finish(e); raise
                    else: a.finish()
                elif style == "run":
                    a = start_action(action_type=node.typ, **f)
                    try: a.run(body)
                    except BaseException as e: a.finish(e); raise
                    else: a.finish()
                elif style == "log_call":
                    @log_call(action_type="lc")
                    def fn(p): return body()
                    fn(5); node.endfields = {"result": 99}
                elif style == "task":
                    target = None
                    with start_task(action_type=node.typ, **f): body()
                node.status = "succeeded"
            except BaseException as e:
                if not fail: raise
                node.status = "failed"; node.endfields = {"exception": "%s.%s" % (type(e).__module__, type(e).__name__)}
            if target is None: TOP.append(node)
            else: rec_parent.kids.append(node)

def norm(v): return json.loads(json.dumps(v))
def cmp(node, rec, path):
    if rec.kind == "m":
        assert isinstance(node, WrittenMessage), (path, node)
        assert node.contents.get("message_type") == rec.typ, (path, node.contents)
        for k, v in rec.fields.items(): assert node.contents[k] == norm(v) or (v != v), (path, k, node.contents[k], v)
    else:
        assert isinstance(node, WrittenAction), (path, node)
        assert node.action_type == rec.typ and node.status == rec.status, (path, node.action_type, node.status, rec.typ, rec.status)
        for k, v in rec.fields.items(): assert node.start_message.contents[k] == norm(v), (path, k)
        for k, v in rec.endfields.items(): assert node.end_message.contents[k] == norm(v), (path, k, node.end_message.contents)
        assert len(node.children) == len(rec.kids), (path, len(node.children), len(rec.kids), [getattr(c,'action_type',None) or c.contents.get('message_type') for c in node.children], [k.typ for k in rec.kids])
        for i, (c, k) in enumerate(zip(node.children, rec.kids)): cmp(c, k, path+[i])

bad = 0
for seed in range(400):
    r = random.Random(seed); TOP = []
    fd, path = tempfile.mkstemp(); os.close(fd)
    fobj = open(path, "ab" if seed % 2 else "a")
    dest = FileDestination(file=fobj)
    D = eliot._output.Destinations(); Logger._destinations = D; D.add(dest)
    root = Rec("a", "root")
    # top-level: sequence of context-less messages and tasks
    class Top: kids = []
    top = Rec("a", "TOP"); 
    gen(r, 0, top)          # items logged with no current action
    fobj.close()
    lines = open(path, "rb").read().split(b"\n"); os.unlink(path)
    assert lines[-1] == b""; msgs = [json.loads(l) for l in lines[:-1]]
    tasks = list(Parser.parse_stream(msgs))
    expected = top.kids      # each is its own task (message or action) in order, plus TOP (start_task inside actions)
    try:
        assert all(t.is_complete() for t in tasks), "incomplete task"
        by_first = sorted(tasks, key=lambda t: min(i for i, m in enumerate(msgs) if m["task_uuid"] == (t.root().task_uuid)))
        allexp = []
        # order of first emission: top.kids in order, but start_task nodes created inside (TOP list) interleave; compare as multisets by matching greedily
        pool = list(top.kids) + list(TOP)
        assert len(by_first) == len(pool), (len(by_first), len(pool))
        for t in by_first:
            rootn = t.root(); matched = None
            for cand in pool:
                try: cmp(rootn, cand, []); matched = cand; break
                except (AssertionError, KeyError): continue
            assert matched is not None, ("no match for task", rootn)
            pool.remove(matched)
    except AssertionError as e:
        bad += 1; print("seed", seed, "MISMATCH", str(e)[:300])
print("C01 random programs:", 400, "bad:", bad)
