#!/bin/bash
# run_w.sh <key> [shards]: verify one function through workers in parallel (no external solvers), list non-proved
key="$1"; n=${2:-8}
for i in $(seq 0 $((n-1))); do
  (echo "{\"key\":\"$key\",\"z3_ms\":8000,\"shard\":[$i,$n]}" | PYVC_NO_EXTERNAL=1 PYTHONPATH=/verif timeout 600 python3-vt -m pyvc.worker > /tmp/rw_$$_$i.json) &
done; wait
python3 - "$n" "$$" <<'PY'
import json,sys
n=int(sys.argv[1]); tot=0; bad=[]
for i in range(n):
    r=json.load(open('/tmp/rw_%s_%d.json'%(sys.argv[2],i)))
    if r.get('error'): print("ERROR", r['error']['type'], r['error']['msg'][:300]); break
    for o in r['obligations']:
        tot+=1
        if o['verdict']!='proved': bad.append(o)
print("total",tot,"not proved",len(bad))
for o in bad[:40]: print("  ",o['verdict'],o['ms'],o['name'])
PY
rm -f /tmp/rw_$$_*.json
