"""Per-property check plan: native driver, what is trusted beyond the mechanically collected assumptions."""

ENCODING_ASSUMPTIONS = [
    "E1 dict iteration order does not influence the stated result (loops get an arbitrary duplicate-free enumeration)",
    "E2 no asynchronous exceptions (KeyboardInterrupt between bytecodes, MemoryError, RecursionError from deep finite recursion)",
    "E3 attribute lookup on instances of Eliot classes finds the fields assigned in __init__ / class body",
    "E4 module-level names assigned exactly once are constants (checked syntactically over /repo/eliot on every run)",
    "E5 self.__class__ in Action.child is Action",
    "E6 strings: only concatenation, equality, length and the listed axiomatised primitives are interpreted",
    "E7 object identity is preserved by parameter passing, storing in containers and raise/except",
    "E9 float arithmetic is never interpreted",
    "E10 `==` on boxed values is value identity for primitives and object identity for references (lists compare by content one level deep)",
    "E11 heap well-formedness: no dangling references in the declared reference-holding attributes; a **kwargs dict is unshared at function entry",
    "Python ints are mathematical integers (exact)",
    "helper functions without a contract are expanded at their call sites (inlined real bodies), all others are used through their contracts",
]

PLAN = {
    "C04": {"driver": "c04.py", "driver_what": "nestings of with / context() / run() x exit kinds on the real code",
            "trusted": ["contextvars.ContextVar token semantics (cross-checked natively by drivers/c04.py)"],
            "explanation": "Hoare triples {CTX[me]=c} construct {CTX[me]=c} for run, context(), __enter__/__exit__ proved from the real "
                           "source for an arbitrary previous value and an arbitrary body (any exception class); composition over "
                           "nestings is the soundness of sequential composition"},
}

NOT_CLAIMED = {}

PLAN["C04"].update({
    "level_text": "Proof: the scoping triples of run / context() / __enter__ / current_action are discharged for every previous context value, "
                  "every body behaviour (arbitrary exception class, generator close) and hence, by sequential composition, every nesting; "
                  "a bounded native driver replays nestings on the real code as cross-check.",
    "level_note": "Trusted: ContextVar token semantics, the rely on application code (it leaves the current action as it found it), "
                  "encoding assumptions E1-E10; __exit__'s contract is part of C02/C03's function set.",
})
