"""Per-property check plan: native driver, what is trusted beyond the mechanically collected assumptions."""

ENCODING_ASSUMPTIONS = [
    "E1 dict iteration order does not influence the stated result (loops get an arbitrary duplicate-free enumeration)",
    "E2 no asynchronous exceptions (KeyboardInterrupt between bytecodes, MemoryError, RecursionError from deep finite recursion)",
    "E3 attribute lookup on instances of Eliot classes finds the fields assigned in __init__ / class body",
    "E4 module-level names assigned exactly once are constants (checked syntactically over /repo/eliot on every run)",
    "E5 self.__class__ in Action.child is Action",
    "E6 strings: only concatenation, equality, length and the listed axiomatised primitives are interpreted",
    "E7 object identity is preserved by parameter passing, storing in containers and raise/except",
    "E9 float arithmetic is never interpreted",
    "E10 `==` on boxed values is value identity for primitives and object identity for references (lists compare by content one level deep)",
    "E11 heap well-formedness: no dangling references in the declared reference-holding attributes; a **kwargs dict is unshared at function entry",
    "Python ints are mathematical integers (exact)",
    "helper functions without a contract are expanded at their call sites (inlined real bodies), all others are used through their contracts",
]

PLAN = {
    "C04": {"driver": "c04.py", "driver_what": "nestings of with / context() / run() x exit kinds on the real code",
            "trusted": ["contextvars.ContextVar token semantics (cross-checked natively by drivers/c04.py)"],
            "explanation": "Hoare triples {CTX[me]=c} construct {CTX[me]=c} for run, context(), __enter__/__exit__ proved from the real "
                           "source for an arbitrary previous value and an arbitrary body (any exception class); composition over "
                           "nestings is the soundness of sequential composition"},
}

NOT_CLAIMED = {}

PLAN["C04"]["side_checks"] = ["context_check.py"]
PLAN["C04"].update({
    "level_text": "Proof: the scoping triples of run / context() / __enter__ / current_action are discharged for every previous context value, "
                  "every body behaviour (arbitrary exception class, generator close) and hence, by sequential composition, every nesting; "
                  "a bounded native driver replays nestings on the real code as cross-check.",
    "level_note": "Trusted: ContextVar token semantics, the rely on application code (it leaves the current action as it found it; that it cannot clobber "
                  "an enclosing block's token by entering the same action again is backed by the token-discipline side check in context_check.py), "
                  "encoding assumptions E1-E10; __exit__'s contract is part of C02/C03's function set.",
})


def plan(pid, driver, what, level_text, level_note, explanation="", trusted=(), **kw):
    PLAN[pid] = dict(driver=driver, driver_what=what, level_text=level_text, level_note=level_note,
                     explanation=explanation or level_text, trusted=list(trusted), **kw)


plan("C03", "c03.py", "nests of actions x makers x scoping styles x exit kinds x 27 exception classes x extractor registrations, on the real code",
     "Proof: Action._start / finish / __exit__ / addSuccessFields are discharged against postconditions transcribed from the statement: exactly one "
     "start write and exactly one end write per action (ghost event log LOG == old + reports + [end] + reports), status failed iff an exception "
     "object of *any* class was passed, exception name / reason / serializer selection, __exit__ returns None (the same object propagates), "
     "finishing again emits nothing. safeunicode is proved total. Bounded native driver as cross-check and replay device.",
     "Trusted: ILogger.write interface model (one write, never raises, extra writes are failure reports), extractor / __str__ opaque-call models, "
     "get_fields_for_exception and write_traceback used through their contracts (their own bodies: C07's function set), encoding assumptions.")

plan("C08", "c08.py", "failure masks over 1-3 destinations x messages x registration programs x nested logging, on the real code",
     "Proof: Destinations.send is discharged with two loop invariants over ghost event sequences: every registered destination is offered the "
     "message exactly once in list order whatever subset of the calls raises (proj_a(NEW) == destinations, all offers carry the message), "
     "the collected errors are exactly the failed offers unless the message is itself a destination-failure report (count_failed), and exactly one "
     "report is logged per collected error -- message_type eliot:destination_failure, exception = module.Name of the failing exception's class, "
     "reason = safeunicode(exception), message = _safe_unicode_dictionary(message), through the same logger (call-site obligation on "
     "log_message(**new_msg)) -- with everything inside the report block contained. Bounded native driver as cross-check/replay.",
     "Trusted: Dest interface model (raises Exception subclasses only, does not mutate the message, does not re-enter Eliot), log_message used "
     "through its contract, definitions of the spec functions proj_a / all_b / count_failed / all_reports, encoding assumptions. The recursion "
     "guard is the decreases clause of the send/log_message/write cycle.")

plan("C13", "c13.py", "type definitions x logged values x failing-serializer subsets x message kinds x loggers, on the real code",
     "Proof: Logger.write leaves the caller's dictionary unchanged on every path, sends a fresh copy exactly once iff serialization succeeded, and "
     "otherwise logs a traceback and a serialization_failure report and returns normally; _MessageSerializer.serialize makes exactly one "
     "Field.serialize call per declared field and leaves undeclared fields untouched; Field.serialize applies the serializer exactly once to the "
     "logged value; _start/finish select the start/success/failure serializer. Bounded native driver as cross-check/replay.",
     "Trusted: Serializer interface model (arbitrary, possibly raising, non-idempotent functions that do not touch Eliot's objects), "
     "Destinations.send / write_traceback / log_message through their contracts, encoding assumptions. Known finding C13-F1 (MemoryLogger.validate).")

plan("C02", "c02.py", "action constructs x exit kinds x destination-failure patterns x nestings x reserved-name collisions x concurrency modes, on the real code",
     "Proof: TaskLevel arithmetic (child appends 1, next_sibling increments, no aliasing of level lists), Action._nextTaskLevel "
     "(result == level ++ [POS+1], counter advances by exactly one), and the position effects of _start / log / child / finish / __exit__ / "
     "start_action / startTask / log_message (start at 1, each message or child at the next position, end at n, failure reports only consume "
     "positions of the *current* action, which __exit__ has already reset away from the finishing action); message shape (task_uuid, task_level, "
     "float timestamp, type/status keys) from the dict postconditions. Run-wide uniqueness follows from the per-action counters plus uuid4 "
     "freshness (lemma over the contracts, DESIGN 10-C02). Bounded native driver (incl. threads/asyncio interleavings) as cross-check/replay.",
     "Trusted: uuid4 freshness, one owner thread per Action (documented), ILogger.write interface model, encoding assumptions. "
     "Known finding C02-F1 (finish() inside the action's own context + a destination failing on the end message).")

plan("C07", "c07.py", "15 action styles x 8 message APIs x traceback APIs x hostile values x raising serializers/extractors/destinations, on the real code",
     "Proof: exception-freedom (raises=None, i.e. every raise path is infeasible or caught) of safeunicode, saferepr, _safe_unicode_dictionary, "
     "Action._start / finish / log / child / addSuccessFields / __enter__ / __exit__, start_action, startTask, log_message, Logger.write, "
     "Destinations.send, get_fields_for_exception, write_traceback, with opaque __str__/__repr__/serializers/extractors/destinations that may "
     "raise on any call; run()/context() re-raise exactly the user code's exception object; termination measures on the send/log_message and "
     "extractor/write_traceback cycles. Bounded native driver as cross-check/replay.",
     "Trusted: API-legality preconditions (field names are str and not Eliot parameter names such as `self`; extractors return dicts whose keys are str "
     "and avoid Eliot's reserved names; destinations raise Exception subclasses), library models (time.time, uuid4, format_exception, warnings.warn "
     "do not raise), encoding assumptions. Known findings C07-F1..F4 (MemoryLogger.write formatting, stdlib bridge, exotic __module__).")

plan("C05", "c05.py", "structured concurrent programs (asyncio tasks, threads, pool reuse, preserve_context, copy_context) x all / seeded schedules, on the real code",
     "Proof under the contextvars axioms: every context-touching function (current_action, run, context(), __enter__, __exit__, start_action, startTask, "
     "log_message) has the frame postcondition `forall c != me. CTX[c] == old(CTX[c])` and attributes new actions/messages to CTX[me] only; the "
     "commutation lemma over those frames gives schedule independence of every per-context history; a syntactic side check (context_check.py) "
     "shows the current action is stored nowhere but in the one ContextVar. Interleavings themselves are never executed by the verifier: the "
     "bounded native driver enumerates schedules of small structured programs on the real code.",
     "Trusted: contextvars semantics (a new thread starts with an empty context, an asyncio task copies its creator's context, ContextVar "
     "operations touch the current context only) -- axioms, cross-checked natively by the driver; one owner thread per Action; encoding assumptions.",
     side_checks=["context_check.py"])

plan("C10", "c10.py", "messages over the JSON-native boundary corpus and rich types x file kinds x json_default configurations, on the real code",
     "Proof for Eliot's own code: FileDestination.__call__ hands the file exactly one write holding dumps(message, default=json_default) + linebreak "
     "and then exactly one flush, on every path; at most that single write has happened if anything raises; the message is not modified. "
     "The fidelity of the encoding itself (orjson) is an assumed contract of a Rust extension: decided by the bounded differential driver only "
     "(labelled bounded, never counted as proved). json_default is under contract for the documented rich types available in this sandbox (Path -> text, "
     "date/time -> isoformat(), set -> a list of exactly its elements without raising, complex -> its two parts, anything else TypeError); "
     "the numpy / pydantic / pandas / polars branches and FileDestination.__new__ are driver-only.",
     "Trusted/assumed: the orjson encode contract (bounded differential in drivers/c10.py), the io model of file.write/flush. "
     "Known findings C10-F1..F4 (dependency limits of orjson).")

plan("C11", "c11.py", "logging programs x 15 file-object kinds x crash points (every traced event, SIGKILL / os._exit), forked children, on the real code",
     "Proof over the io model: FileDestination.__call__ performs exactly [write(line), flush] before returning (proved from the real source), "
     "and the crash_prefix lemma turns that trace shape into the statement for every crash index (acknowledged lines complete and in order, at "
     "most one fragment). The call chain Action.log/_start/finish -> ILogger.write -> Destinations.send -> destination is synchronous (plain "
     "calls in the verified bodies). The parser half (prefixes never misreport) is decided by the bounded driver only.",
     "Trusted: the io model (user-space buffer lost at process death, flushed bytes survive; not power loss), the reader discarding an "
     "incomplete last line; parser behaviour on prefixes is bounded (driver), not proved.")

plan("C12", "c12.py", "all histories <= 5 ops over log/add/remove/global-fields incl. >1000 buffered; line-granular two-thread hand-over schedules, on the real code",
     "Proof for sequential histories: BufferingDestination.__call__ keeps exactly the most recent 1000 messages in order (while-loop invariant "
     "with a decreases clause); Destinations.add installs exactly the given destinations on the first call and re-sends every buffered message "
     "exactly once in order before returning, later calls only extend the list; remove deletes the first occurrence; addGlobalFields merges; "
     "send merges all global fields into the delivered message. The concurrent hand-over clause is false on the unchanged tree: known finding C12-F1.",
     "Trusted: Dest interface model, E12 ownership assumption (ownership_check.py), encoding assumptions. Concurrency: statement-granular "
     "schedules are explored by the bounded driver only.", side_checks=["ownership_check.py"])

plan("C14", "c14.py", "type definitions x conforming messages x single-point deviations x entry points x test outcomes, on the real code",
     "Proof: _MessageSerializer.validate returns normally only if every declared field is present and its validator returned and (unless "
     "additional fields are allowed) no key outside declared + {task_uuid, task_level, timestamp} is present -- the three names are written "
     "literally in the contract -- and raises only for a missing / undeclared field or a raising field validator; Field.validate calls the "
     "serializer then the extra validator; MemoryLogger.write validates exactly once, on a private copy, records a failed validation and only "
     "then, and records the message; _validate_message validates and then serializes exactly once with the given serializer (neither without "
     "one), accepts only text / utf-8 byte keys and only JSON-encodable messages, and lets only its own TypeError or what provably came out "
     "of the serializer escape; flushTracebacks returns exactly the tracebacks whose reason is an instance of the type and keeps the others "
     "in order; MemoryLogger.validate re-validates every recorded "
     "message with its own serializer; check_for_errors raises UnflushedTracebacks before validating whenever tracebacks are unflushed; "
     "swap_logger installs and returns the previous default; capture_logging's wrapper swaps the captured logger in, registers its cleanup exactly "
     "once *before* the test body runs (so also when the body raises), runs the body once with the captured logger installed, and the cleanup "
     "closure reinstalls exactly the logger that was the default at entry. That unittest runs registered cleanups whatever the outcome is "
     "unittest's contract (trusted, exercised by the bounded driver).",
     "Trusted: Serializer/Validator interface models, orjson raising only Exception subclasses, unittest addCleanup semantics (driver), "
     "encoding assumptions.", side_checks=["ownership_check.py"])

plan("C16", "c16.py", "2-3 threads under a token-passing line scheduler x operation pairs/programs x 0-3 preemptions, MemoryLogger and FileDestination, on the real code",
     "Proof under the lock axioms: every MemoryLogger method that touches messages / serializers / tracebackMessages / _failed_validations does so "
     "holding self._lock (ghost permission obligations `token@...` at every read and write; the @exclusively wrapper is verified to run the body "
     "inside `with self._lock` and release on every exit), and the monitor invariant len(messages) == len(serializers) with each message "
     "recorded next to its own serializer is re-established at every exit of write / validate / serialize / reset / flushTracebacks including the "
     "exceptional ones; serialize returns private copies that went through a serializer, flushTracebacks partitions exactly. "
     "FileDestination.__call__ issues a single file.write per message. Real interleavings are explored by the bounded driver only.",
     "Trusted: threading.Lock mutual exclusion, atomicity of one file.write call, encoding assumptions.")

plan("C06", "c06.py", "hand-off chains x carriers (thread/inline/subprocess) x id forms x sinks x merge orders; racing callers of one preserve_context callable (line-granular), on the real code",
     "Proof: serialize_task_id returns ascii(uuid + '@' + levelstr(level ++ [POS+1])) and consumes exactly that position; TaskLevel.toString / "
     "fromString are the level codec and its inverse; continue_task given such an id (bytes or text) returns a fresh started action with the same "
     "task_uuid at exactly that level, its start message at position 1, and raises only for a missing or malformed id; preserve_context returns f "
     "itself without a current action and otherwise reserves exactly one position; its closure calls f only while holding the token of an atomic "
     "test-and-set on a lock that is never released (ghost-permission obligation at the call of f), with the very same arguments, *inside the action continue_task returned* (never directly in the originating action, also when f raises), returns f's "
     "result, lets only f's own exception escape (ghost RAN), raises TooManyCalls iff the lock was already taken, and restores the context; "
     "preserve_context owes the closure its variables (closure-environment obligations). Races and merge orders are explored by the bounded driver only; parsing of the merged logs is C09's part.",
     "Trusted: string library axioms (split at '@', level codec inverse, ASCII) used as ground instances and cross-checked natively, "
     "threading.Lock.acquire(False) atomic test-and-set, E13 rely at with-block exit, UserCode rely, encoding assumptions.")

plan("C15", "c15.py", "generator bodies x driver contexts per resumption x send/throw/close scripts x nested decorated generators (+inline_callbacks via stub), on the real code",
     "Proof: the wrapper of eliot_friendly_generator_function is executed as a reactive loop (every yield is a cut point with an arbitrary driver "
     "step: any sent value, any thrown exception object of any class incl. GeneratorExit, any change of the driver's context): copy_context() "
     "runs exactly once, before the loop; every gen.send / gen.throw happens inside context.run of that one Context object (ghost obligation at "
     "each call site); what is yielded is exactly what the generator produced; the sent value / the very exception object is forwarded; "
     "StopIteration(v) ends the wrapper with return value v; any other exception of the generator propagates unchanged; the driver's "
     "CTX[me] after a resumption is what the driver left.",
     "Trusted: generator protocol and Context.run / copy_context axioms, the rely on the driver (it cannot reach the private Context object), "
     "debug mode off, Twisted's inlineCallbacks (absent: composition with it is exercised only through the stub in the driver).")

plan("C19", "c19.py", "gate-scheduled cycles of offers / writer steps / stop over one ThreadedWriter, failure masks, repeated cycles (Twisted stub), on the real code",
     "Proof under the FIFO-queue axioms: __call__ only enqueues (no destination call on the caller's thread); _reader's loop invariant over the "
     "ghost enqueue/dequeue histories: everything dequeued so far was passed to the wrapped destination exactly once, in dequeue = enqueue "
     "order, whether or not those calls raised, and the loop exits only after dequeuing the stop marker; startService starts exactly one thread "
     "targeting _reader and then registers the writer; stopService unregisters, then enqueues the stop marker behind everything pending, then "
     "defers the join. A syntactic side check shows the destination is invoked only in _reader and _reader only as that thread's target.",
     "Trusted: queue.SimpleQueue FIFO axioms with the rely `the enqueue history only grows`, threading.Thread, Twisted Service / "
     "deferToThreadPool (absent here: stub for replay), Dest interface model (Exception subclasses), encoding assumptions. "
     "Real interleavings are explored by the bounded driver only.", side_checks=["logwriter_check.py"])

plan("C18", "c18.py", "signatures (every parameter kind, defaults, colliding names) x targets x decorator options x valid/invalid calls x contexts x body outcomes, on the real code",
     "Proof: log_call's logging_wrapper calls the wrapped function exactly once with the very same args / kwargs, returns its result object for "
     "include_result both true and false, lets its exception object propagate unchanged, never runs it when Python's binding (getcallargs) fails, "
     "logs the result iff include_result, and restores the context; the start fields are exactly Python's binding of the call "
     "(inspect.getcallargs as a function of the callable and the arguments) without `self`, restricted to include_args when given, handed over "
     "as a dict (no clash with start_action's own parameter names after the fix). What `the wrapper accepts exactly the calls the function accepts` rests on is the "
     "boltons.funcutils.wraps / inspect.getcallargs library contracts: bounded driver only (known findings C18-F1, F3, F5).",
     "Trusted: inspect.getcallargs = Python's own binding, boltons.funcutils.wraps (cross-checked by the driver: findings), UserCode rely, E13. "
     "Known findings C18-F1..F5.")

plan("C20", "c20.py", "messages x timestamps x field names/values; input streams mixing Eliot lines, junk bytes, JSON scalars/arrays/incomplete objects; filter expressions, on the real code",
     "Proof: pretty_format renders the type/status fields first and then every remaining field of the message exactly once (loop invariant "
     "REST == filter_out(enumeration, header fields) over an arbitrary enumeration of the keys); compact_format renders exactly the type/status "
     "fields plus every remaining field with the message's values and does not touch the message; the UTC timestamp carries the Z marker; eliot-prettyprint's per-line body never raises for any bytes line -- non-JSON (ValueError family, RecursionError), JSON "
     "non-objects and objects lacking required fields are each reported with exactly one output record and processing continues (NOUT == "
     "number of lines); EliotFilter.run writes one output line per input line except exactly those whose expression value is SKIP, and "
     "_evaluate hands the expression J, SKIP, datetime and timedelta. The rendered text itself (pprint, isoformat, json.dumps) is library "
     "behaviour: bounded driver only.",
     "Trusted: pprint.pformat / json.dumps / json.loads / datetime contracts (returns text; loads raises ValueError subclasses or "
     "RecursionError only; object keys are str), argparse, the stream model. Known findings C20-F1 (backslash-n rendering), C20-F2 "
     "(ill-typed required fields abort the formatter: assumed away in _main's contract).")

plan("C17", "c17.py", "logging programs on one MemoryLogger (deferred children, remote sub-tasks, repeated types, several tasks) x assert variants, on the real code",
     "Proof per helper, with the declarative specification written as a ghost fold over the message list that the loop invariant ties to the "
     "code's decisions: LoggedAction.of_type returns exactly one entry (one fromMessages call, in list order) per message whose action_type is "
     "the requested type and whose status is started -- at any depth and in any task; LoggedAction.fromMessages collects as children exactly the "
     "direct messages (own level prefix, no action status) and the direct child actions (first message two levels down ending in 1) in list "
     "order, with the last own start / end message; LoggedMessage.of_type returns exactly the messages of the type; assertContainsFields passes "
     "iff the message restricted to the expected keys equals the expected fields; assertHasMessage succeeds iff the first entry contains the "
     "fields and returns it; LoggedAction.of_type returns the very objects fromMessages built, in call order, the first of them exposing its own "
     "start and end message; assertHasAction succeeds iff that first entry's end status equals the expected outcome and its start / end "
     "messages contain the expected fields, returns it, and otherwise raises AssertionError (anything else provably comes out of of_type). "
     "Agreement with the parser's tree and the descendants / type_tree pre-order (recursive generators over the result tree) are decided by "
     "the bounded driver only.",
     "Trusted: unittest.TestCase.assertEqual / assertTrue semantics, pyrsistent PClass construction, encoding assumptions. Termination of the "
     "fromMessages recursion is not proved (depth bounded by the data). Known finding C17-F1 (of_type raises on an unfinished action).")

plan("C09", "c09.py", "every arrival order of every subset of the messages of one, two or three small well-formed tasks (incl. remote sub-tasks), Parser state compared after every single add, on the real code",
     "Proof, per call (all inputs, no bound): Task.add takes the action branch exactly when the message has a non-null action_type and then starts / "
     "ends the action one level up, keeping what was already known about it; Task._insert_action stores the node at its level, (re-)links it into its "
     "parent and every ancestor up to the root (mutual recursion with _ensure_node_parents, termination measure = level length), changes nothing "
     "outside that path, and applies the completion rule exactly (start and end present, as many children as the end position says, every child "
     "action already completed -- a loop invariant over the children); completed levels only grow, and only on that path; Parser.add continues the "
     "stored task of that uuid or starts an empty one, reports the task exactly when this message made its root complete and then drops it, stores it "
     "otherwise, and leaves all other tasks untouched (interleaving independence per call); parse_stream yields every reported task once, at once and "
     "in order, then the incomplete tasks of the final parser state, threading one parser value through all messages. "
     "NOT proved and labelled bounded: that the final state is the same for every arrival order, and that no subset of a well-formed task raises "
     "(both need the inductive invariant 'a node is stored under the key of its own level'; see DESIGN 17) -- these whole-history clauses are "
     "decided by exhaustive small-scope enumeration in drivers/c09.py only.",
     "Trusted: the pyrsistent model (immutable records, functional set/transform/discard/add, TaskLevel keys compared by content, field type checks not "
     "modelled), prefkeys / lvk definitional axioms, E11 instances for objects stored in containers, the Parser class invariant (side check "
     "parser_check.py), the consumer of parse_stream does not mutate the input while it is parsed, encoding assumptions.",
     side_checks=["parser_check.py"])

plan("C01", "c01.py", "small logging programs (lanes/threads, every way of starting, scoping and finishing actions, typed and untyped fields, tracebacks, global fields) -> real FileDestination -> file -> json -> Parser.parse_stream, compared with an independent oracle, on the real code",
     "Proof for the two ends, per call: on the emitting side the level arithmetic the parser relies on (TaskLevel.child / next_sibling, "
     "Action._nextTaskLevel: the n-th message of an action carries level ++ [n]) the scoping contracts of C04 (which action is current "
     "decides whose child a message becomes: run / context() / __enter__ / __exit__ / start_action / startTask / log_message) and the "
     "one-start / one-truthful-end contracts of C03 (status failed iff an exception object of any class left the block, with its name and "
     "reason); on the parsing side the contracts of C09's function set (a message "
     "becomes exactly one node at the position its task_level names, linked into its parent chain, nothing else changes; completion rule; one "
     "task per uuid). The composition -- every program's emitted file parses back to exactly the tree the program executed -- is a whole-program "
     "statement over emission, JSON encoding (orjson) and parsing that no single contract expresses; it is decided by the bounded driver only "
     "(labelled bounded, never counted as proved).",
     "Trusted: as for C09 and C02; the JSON encoder/decoder (bounded differential in drivers/c10.py). The driver's 'odd' families (logging into a "
     "finished action, reserved field names, a reserved but unused position, schema-violating typed actions) are outside the statement, see "
     "known_findings.json.",
     side_checks=["parser_check.py", "context_check.py"], includes=["C04", "C03"])
