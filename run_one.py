import sys, time
sys.path.insert(0, "/verif")
import contracts; contracts.load_all()
from pyvc import Verifier
from pyvc import spec as SP
from pyvc.smt import check
keys = [k for k in SP.CONTRACTS if (len(sys.argv) < 2 or sys.argv[1] in k) and not k.startswith("iface::")]
tot = bad = 0
for key in keys:
    v = Verifier()
    t0 = time.time()
    try:
        obs = v.verify(key)
    except Exception as e:
        import traceback
        print("!!", key, type(e).__name__, e)
        if "-v" in sys.argv: traceback.print_exc()
        continue
    if getattr(v, "vacuous", False): print("!! VACUOUS", key)
    if getattr(v, "vacuous_paths", None): print("!! VACUOUS PATHS", key, v.vacuous_paths[:3])
    print("==", key, "%d obligations, %.2fs symexec" % (len(obs), time.time() - t0))
    for ob in obs:
        r = check(ob, v.axioms(), 10000)
        tot += 1
        if r[0] != "proved":
            bad += 1
            print("   %-9s %5dms %s" % (r[0], r[2], ob.name))
            if "-m" in sys.argv and r[3]: print("        " + r[3].replace("\n", "\n        "))
        elif "-a" in sys.argv:
            print("   %-9s %5dms %s" % (r[0], r[2], ob.name))
print("total", tot, "not proved", bad)
