"""Regenerates MANIFEST.json from checkplan.PLAN + manifest_texts (keeps the interface file consistent with what is claimed)."""
import json, sys
sys.path.insert(0, "/verif")
import checkplan
props = [json.loads(l) for l in open("/verif/properties.jsonl")]
NA_DEFAULT = "not yet claimed: contracts for this property are not built yet (see DESIGN.md section 16)"
checks = []
na = []
for p in props:
    pid = p["id"]
    plan = checkplan.PLAN.get(pid)
    if plan is None or not plan.get("claimed", True):
        na.append({"property_id": pid, "reason": checkplan.NOT_CLAIMED.get(pid, NA_DEFAULT)})
        continue
    checks.append({
        "property_id": pid,
        "quick_cmd": "./check %s --tier quick" % pid,
        "thorough_cmd": "./check %s --tier thorough" % pid,
        "evidence_file": "/verif/evidence/%s.json" % pid,
        "replay_cmd_template": "./check %s --replay {path}" % pid,
        "engine": "pyvc",
        "level_claimed": {"category": "proof", "text": plan["level_text"], "design_ref": plan.get("design_ref", "DESIGN.md section 10")},
        "level_note": plan["level_note"],
        "technique": plan.get("technique", "contract-based deductive verification: VCs generated from the real Python source against sidecar contracts, discharged by z3/cvc5"),
    })
m = {"version": 1,
     "setup_cmd": "python3-vt -m compileall -q pyvc contracts >/dev/null 2>&1; python3-vt selftest.py",
     "hooks": {"guard": "ELIOT_VERIF", "enable": "no hooks: the engine parses /repo sources, native drivers monkeypatch from outside",
               "baseline_off_cmd": "cd /repo && /venv/bin/python -m pytest -ra -q -p no:cacheprovider --timeout=900 --continue-on-collection-errors",
               "source_commits": [], "add_only": True},
     "engines": [{"name": "pyvc", "path": "/verif/pyvc", "serves_properties": [c["property_id"] for c in checks],
                  "kind_free_text": "verification-condition generator (symbolic executor over the real ASTs of /repo/eliot with sidecar contracts, loop invariants, frames, ghost state); back ends z3 5.1 API, cvc5 1.0.3, z3 4.8.12"}],
     "checks": checks,
     "notes": "fix: commits in /repo: a1253ec (C03/C07), 052c290 (C15), 5003d8f (C18), 615f4bc (C20); see known_findings.json and DESIGN.md section 11",
     "not_applicable": na}
json.dump(m, open("/verif/MANIFEST.json", "w"), indent=1)
print("claimed:", [c["property_id"] for c in checks])
