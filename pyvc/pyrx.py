"""pyrsistent model (trusted library semantics, listed in the evidence of the parser properties).

  * a PClass instance is an immutable record: `set` / `transform` allocate a new record, copy every declared field and
    replace the designated ones; no method of the model ever writes to an existing object;
  * PMap / PSet values are immutable dictionary objects (`$dom`/`$map`; a PSet has the constant-None map); `set`, `discard`,
    `add`, `remove` return a new object;
  * keys that are TaskLevel instances are looked up *by content* (TaskLevel.__hash__/__eq__ hash and compare the level
    list): the key is lvk(<the list of ints>), lvk injective;
  * pvector(xs) is a new tuple-like sequence object with the same elements (equal to a list with the same elements);
  * field type checks and invariants of pyrsistent (PTypeError / InvariantException) are NOT modelled: the contracts'
    requires clauses state the types of what is stored.
"""
import ast

import z3

from .sorts import Val, SV, SeqV, Unsupported, SpecError, box, clsof, NONE
from .engine import Res

NoneV = Val.NoneV
LVK = z3.Function("lvk", SeqV, Val)
UNLVK = z3.Function("unlvk", Val, SeqV)
PREFK = z3.Function("prefkeys", SeqV, z3.ArraySort(Val, z3.BoolSort()))

PYR_DECLS = ("field", "pmap_field", "pset_field", "pvector_field")


def lvk_axioms(engine):
    s = z3.Const("s!lvk", SeqV)
    return [z3.ForAll([s], UNLVK(LVK(s)) == s, patterns=[LVK(s)])]


class PyrMixin:
    def is_pclass(self, cname):
        return bool(cname) and cname in self.class_index and "PClass" in self.ct.ancestors(cname)

    def pyr_decls(self, cname):
        """declared pyrsistent fields of a PClass: name -> (declaring function name, Call node)"""
        out = {}
        for c in reversed(self.repo_mro(cname)):
            p, cdef = self.class_index[c]
            for n in cdef.body:
                if isinstance(n, ast.Assign) and isinstance(n.value, ast.Call):
                    fn = n.value.func
                    fname = fn.id if isinstance(fn, ast.Name) else getattr(fn, "attr", None)
                    if fname in PYR_DECLS:
                        for t in n.targets:
                            if isinstance(t, ast.Name):
                                out[t.id] = (fname, n.value)
        return out

    # ------------------------------------------------------------------ keys
    def kbox(self, st, v):
        """the dictionary key a Python value stands for: content key for TaskLevel instances, the boxed value otherwise"""
        v = self.concretize(st, v)
        if v.k == "inst" and v.h == "TaskLevel":
            lst = self.from_val(st, self.hget(st, "_level", v.t), "list")
            return LVK(self.seq_of(st, lst))
        if v.k == "val" and v.h and "TaskLevel" in v.h:
            # Opt[TaskLevel] not known to be an instance here: None stays None, an instance is keyed by content
            r = Val.rv(v.t)
            lv = self.hget(st, "_level", r)
            return z3.If(v.t == NoneV, NoneV, LVK(self.hget(st, "$seq", Val.rv(lv))))
        return box(v)

    # ------------------------------------------------------------------ records
    def pyr_default(self, st, cname, fname, decl):
        kind, call = decl
        if kind == "pmap_field" or kind == "pset_field":
            d = self.new_dict(st)
            d.x = "pmap"
            return d
        if kind == "pvector_field":
            return self.new_tuple_obj(st, z3.Empty(SeqV))
        for kw in call.keywords:
            if kw.arg == "initial":
                if isinstance(kw.value, ast.Constant):
                    return self.const(kw.value.value)
                raise Unsupported("pyrsistent field initial value of %s.%s" % (cname, fname))
        return None

    def pyr_store(self, st, r, cname, fname, decl, v):
        """field factories: pmap_field/pset_field convert a mapping/set into a persistent (private, immutable) copy"""
        kind = decl[0] if decl else "field"
        v = self.concretize(st, v)
        if kind in ("pmap_field", "pset_field") and v.k == "dict" and v.x != "pmap":
            nv = self.new_dict(st, self.dom_of(st, v), self.map_of(st, v), h=v.h)
            nv.x = "pmap"
            v = nv
        self.hset(st, fname, r, box(self.heapify(st, v)))

    def pclass_new(self, st, cname, pos, kw, star, starkw):
        if pos or star is not None or starkw is not None:
            raise Unsupported("PClass construction with positional/star arguments")
        self.assumptions.add("pyrsistent: PClass/PMap/PSet/pvector are immutable values; set/transform/discard/add return updated copies; "
                             "TaskLevel keys are looked up by content; field type checks are not modelled (DESIGN 17)")
        decls = self.pyr_decls(cname)
        r = self.alloc(st, cname)
        obj = SV("inst", r, h=cname)
        inits = SP_FIELDS().get(cname + "$init", {})
        for name, v in kw.items():
            if decls and name not in decls and name not in inits:
                raise Unsupported("PClass %s has no field %s" % (cname, name))
            self.pyr_store(st, r, cname, name, decls.get(name), v)
        for name, init in inits.items():
            if name not in kw:
                iv = self.spec_value(st, init, st.fid, st.heap0, None, {})
                if iv.k == "sdict":
                    iv = self.new_dict(st, iv.t[0], iv.t[1])
                elif iv.k == "seq":
                    iv = self.new_list(st, iv.t)
                self.hset(st, name, r, box(iv))
        for name, decl in decls.items():
            if name in kw or name in inits:
                continue
            dv = self.pyr_default(st, cname, name, decl)
            if dv is None:
                raise Unsupported("mandatory field %s.%s not given" % (cname, name))
            self.hset(st, name, r, box(dv))
        return [Res(st, obj)]

    def pyr_copy(self, st, obj):
        cname = obj.h
        decls = self.pyr_decls(cname)
        names = list(decls) + [n for n in SP_FIELDS().get(cname + "$init", {}) if n not in decls]
        r = self.alloc(st, cname)
        for n in names:
            self.hset(st, n, r, self.hget(st, n, obj.t))
        return SV("inst", r, h=cname), decls

    def pyr_set(self, st, obj, kw):
        new, decls = self.pyr_copy(st, obj)
        for name, v in kw.items():
            if name not in decls:
                raise Unsupported("PClass.set of undeclared field " + name)
            self.pyr_store(st, new.t, obj.h, name, decls[name], v)
        return [Res(st, new)]

    def pyr_transform(self, st, obj, node):
        """obj.transform(path1, command1, path2, command2, ...): paths are list/tuple displays of length 1 ([field]) or 2
        ([field, key] into a PMap field); a command is a value, `discard`, or (length-1 paths) a callable applied to the old value"""
        if node is None or node.keywords or len(node.args) % 2 or any(isinstance(a, ast.Starred) for a in node.args):
            raise Unsupported("transform call shape")
        new, decls = self.pyr_copy(st, obj)
        states = [Res(st, None)]
        for i in range(0, len(node.args), 2):
            path, cmd = node.args[i], node.args[i + 1]
            if not isinstance(path, (ast.List, ast.Tuple)) or not 1 <= len(path.elts) <= 2:
                raise Unsupported("transform path must be a list/tuple display of length 1 or 2")
            if not (isinstance(path.elts[0], ast.Constant) and isinstance(path.elts[0].value, str)):
                raise Unsupported("transform path must start with a literal field name")
            fname = path.elts[0].value
            if fname not in decls:
                raise Unsupported("transform of undeclared field " + fname)
            nxt = []
            for r0 in states:
                if r0.exc is not None:
                    nxt.append(r0)
                    continue
                for rc in self.ev(cmd, r0.st):
                    if rc.exc is not None:
                        nxt.append(rc)
                        continue
                    s, cv = rc.st, self.concretize(rc.st, rc.val)
                    if len(path.elts) == 1:
                        if cv.k in ("func", "bound", "meth", "builtin"):
                            old = self.from_val(s, self.hget(s, fname, new.t), self.field_hint(obj.h, fname))
                            for rr in self.call(s, cv, [old], {}):
                                if rr.exc is not None:
                                    nxt.append(rr)
                                else:
                                    self.pyr_store(rr.st, new.t, obj.h, fname, decls[fname], rr.val)
                                    nxt.append(Res(rr.st, None))
                        else:
                            self.pyr_store(s, new.t, obj.h, fname, decls[fname], cv)
                            nxt.append(Res(s, None))
                        continue
                    if decls[fname][0] != "pmap_field":
                        raise Unsupported("two-step transform path into a non-PMap field")
                    for rk in self.ev(path.elts[1], s):
                        if rk.exc is not None:
                            nxt.append(rk)
                            continue
                        s2 = rk.st
                        cont = self.from_val(s2, self.hget(s2, fname, new.t), self.field_hint(obj.h, fname) or "pmap")
                        kb = self.kbox(s2, rk.val)
                        dom, mp = self.dom_of(s2, cont), self.map_of(s2, cont)
                        if cv.k == "ext" and cv.t.endswith("discard"):
                            nd = self.new_dict(s2, z3.Store(dom, kb, z3.BoolVal(False)), z3.Store(mp, kb, NoneV), h=cont.h)
                        elif cv.k in ("func", "bound", "meth", "builtin", "ext"):
                            raise Unsupported("callable command on a two-step transform path")
                        else:
                            nd = self.new_dict(s2, z3.Store(dom, kb, z3.BoolVal(True)), z3.Store(mp, kb, box(self.heapify(s2, cv))), h=cont.h)
                        nd.x = "pmap"
                        self.hset(s2, fname, new.t, box(nd))
                        nxt.append(Res(s2, None))
            states = nxt
        return [r if r.exc is not None else Res(r.st, new) for r in states]

    def pyr_method(self, st, recv, name, a, kw, node):
        """methods of PClass instances and of persistent maps/sets; None = not a pyrsistent method"""
        if recv.k == "inst" and self.is_pclass(recv.h):
            if name == "transform":
                return self.pyr_transform(st, recv, node)
            if name == "set":
                if a:
                    raise Unsupported("PClass.set with positional arguments")
                return self.pyr_set(st, recv, kw)
            return None
        if recv.k == "dict" and recv.x == "pmap":
            dom, mp = self.dom_of(st, recv), self.map_of(st, recv)
            if name in ("discard", "remove") and len(a) == 1:
                kb = self.kbox(st, a[0])

                def kd(s):
                    nd = self.new_dict(s, z3.Store(dom, kb, z3.BoolVal(False)), z3.Store(mp, kb, NoneV), h=recv.h)
                    nd.x = "pmap"
                    return [Res(s, nd)]
                if name == "remove":
                    return self.may_raise(st, z3.Select(dom, kb), "KeyError", kd)
                return kd(st)
            if name == "set" and len(a) == 2:
                kb = self.kbox(st, a[0])
                nd = self.new_dict(st, z3.Store(dom, kb, z3.BoolVal(True)), z3.Store(mp, kb, box(self.heapify(st, a[1]))), h=recv.h)
                nd.x = "pmap"
                return [Res(st, nd)]
            if name == "add" and len(a) == 1:
                kb = self.kbox(st, a[0])
                nd = self.new_dict(st, z3.Store(dom, kb, z3.BoolVal(True)), mp, h=recv.h)
                nd.x = "pmap"
                return [Res(st, nd)]
            if name in ("update", "pop", "setdefault", "clear", "popitem", "append"):
                return [self.raise_new(st, "AttributeError")]
        return None

    def pyr_ext(self, st, name, a, kw):
        """pyrsistent.pvector / pyrsistent.pmap / pyrsistent.pset constructors"""
        if name.endswith("pyrsistent.pvector"):
            if not a:
                return [Res(st, self.new_tuple_obj(st, z3.Empty(SeqV)))]
            src = self.concretize(st, a[0])
            if src.k == "list":
                t = self.new_tuple_obj(st, self.seq_of(st, src))
                t.h = src.h
                return [Res(st, t)]
            if src.k == "seq":
                t = self.new_tuple_obj(st, src.t)
                t.h = src.h
                return [Res(st, t)]
            raise Unsupported("pvector of " + src.k)
        return None


def SP_FIELDS():
    from . import spec as SP
    return SP.FIELDS
