"""z3 sorts, the universal value datatype, class table and symbolic-value wrapper used by the executor.

Encoding assumptions (repeated in every evidence file, see DESIGN.md section 3.6):
  * Python ints are mathematical integers (exact: Python ints are unbounded).
  * str/bytes are z3 Strings; only concatenation, equality, length and the listed axiomatised
    primitives are interpreted.
  * every heap object (list, dict, instance, exception, opaque object, function object) is a
    reference (Int); one array per attribute name (Burstall component heap); list contents are
    Seq(Val) in the `$seq` component, dict contents are (domain set, value map) in `$dom`/`$map`.
  * floats are opaque (never interpreted).
"""
import z3

Val = z3.Datatype("Val")
Val.declare("NoneV")
Val.declare("BoolV", ("bv", z3.BoolSort()))
Val.declare("IntV", ("iv", z3.IntSort()))
Val.declare("StrV", ("sv", z3.StringSort()))
Val.declare("BytesV", ("yv", z3.StringSort()))
Val.declare("FloatV", ("fv", z3.IntSort()))
Val.declare("RefV", ("rv", z3.IntSort()))
Val.declare("ClsV", ("cv", z3.IntSort()))
Val = Val.create()

Ev = z3.Datatype("Ev")
Ev.declare("mkEv", ("tag", z3.StringSort()), ("a", Val), ("b", Val), ("c", Val), ("d", Val), ("e", Val), ("f", Val), ("g", Val))
Ev = Ev.create()

SeqV = z3.SeqSort(Val)
SeqE = z3.SeqSort(Ev)
SetV = z3.ArraySort(Val, z3.BoolSort())
MapV = z3.ArraySort(Val, Val)
I = z3.IntSort()
B = z3.BoolSort()
S = z3.StringSort()

clsof = z3.Function("clsof", I, I)            # class id of a heap object
issub = z3.Function("issub", I, I, B)         # subclass relation on class ids
cls_module = z3.Function("cls_module", I, S)
cls_name = z3.Function("cls_name", I, S)
cls_qualname = z3.Function("cls_qualname", I, S)

NONE = Val.NoneV


class ClassTable:
    """Class ids. Builtin hierarchy is fixed; repo classes are registered by the frontend."""

    BUILTIN = {
        "object": None,
        "BaseException": "object",
        "Exception": "BaseException",
        "KeyboardInterrupt": "BaseException",
        "GeneratorExit": "BaseException",
        "SystemExit": "BaseException",
        "StopIteration": "Exception",
        "ArithmeticError": "Exception",
        "LookupError": "Exception",
        "KeyError": "LookupError",
        "IndexError": "LookupError",
        "ValueError": "Exception",
        "UnicodeError": "ValueError",
        "JSONDecodeError": "ValueError",
        "UnicodeDecodeError": "UnicodeError",
        "UnicodeEncodeError": "UnicodeError",
        "TypeError": "Exception",
        "AttributeError": "Exception",
        "NameError": "Exception",
        "UnboundLocalError": "NameError",
        "RuntimeError": "Exception",
        "RecursionError": "RuntimeError",
        "AssertionError": "Exception",
        "OSError": "Exception",
        "Warning": "Exception",
        "DeprecationWarning": "Warning",
        "list": "object",
        "dict": "object",
        "tuple": "object",
        "set": "object",
        "str": "object",
        "bytes": "object",
        "int": "object",
        "bool": "int",
        "float": "object",
        "NoneType": "object",
        "function": "object",
        "Lock": "object",
        "Token": "object",
        "Context": "object",
        "generator": "object",
        "file": "object",
        "SimpleQueue": "object",
        "Thread": "object",
        "Path": "object",
        "date": "object",
        "datetime": "date",
        "time": "object",
        "complex": "object",
        "IOBase": "object",
        "PClass": "object",
        "pmap": "object",
        "pset": "object",
        "pvector": "object",
        "SkipTest": "Exception",
    }
    ALIASES = {"EnvironmentError": "OSError", "IOError": "OSError"}

    def __init__(self):
        self.ids = {}
        self.parent = {}
        for n, p in self.BUILTIN.items():
            self.add(n, p)

    def add(self, name, parent):
        name = self.ALIASES.get(name, name)
        if name not in self.ids:
            self.ids[name] = len(self.ids) + 1
            self.parent[name] = self.ALIASES.get(parent, parent) if parent else None
        return self.ids[name]

    def id(self, name):
        name = self.ALIASES.get(name, name)
        return self.ids[name]

    def has(self, name):
        return self.ALIASES.get(name, name) in self.ids

    def ancestors(self, name):
        name = self.ALIASES.get(name, name)
        out = []
        while name is not None:
            out.append(name)
            name = self.parent.get(name)
        return out

    def axioms(self):
        """Ground + single-trigger axioms describing the known hierarchy; unknown (symbolic)
        classes are only constrained by reflexivity and upward closure."""
        ax = []
        c = z3.Int("c!")
        ax.append(z3.ForAll([c], issub(c, c), patterns=[issub(c, c)]))
        for n, p in self.parent.items():
            if p is not None:
                ax.append(z3.ForAll([c], z3.Implies(issub(c, self.ids[n]), issub(c, self.ids[p])),
                                    patterns=[issub(c, self.ids[n])]))
        # ground negative facts only among exception classes and non-builtin (repo) classes: the other builtin
        # classes are only ever compared through clsof(r) == id
        names = [n for n in self.ids if "BaseException" in self.ancestors(n) or n not in self.BUILTIN or n == "object"
                 or n in ("IOBase", "Path", "date", "datetime", "time", "set", "complex", "dict", "list", "str")]
        for a in names:
            anc = set(self.ancestors(a))
            for b in names:
                if b not in anc:
                    ax.append(z3.Not(issub(self.ids[a], self.ids[b])))
        for n, i in self.ids.items():
            ax.append(cls_name(i) == z3.StringVal(n))
            for anc in self.ancestors(n):
                ax.append(issub(i, self.ids[anc]))
        return ax


class SV:
    """A symbolic Python value: static kind + z3 term (+ hint/extra)."""
    __slots__ = ("k", "t", "h", "x")

    def __init__(self, k, t=None, h=None, x=None):
        self.k = k      # kind
        self.t = t      # z3 term (sort depends on kind) or python payload
        self.h = h      # hint: type string (for val / inst: class name)
        self.x = x      # extra payload (tuple items, closure env, ...)

    def __repr__(self):
        return "SV(%s,%s%s)" % (self.k, self.t, "," + str(self.h) if self.h else "")


REFKINDS = ("list", "dict", "inst", "obj", "set")


def box(v):
    """SV -> z3 Val term."""
    k = v.k
    if k == "val":
        return v.t
    if k == "none":
        return Val.NoneV
    if k == "bool":
        return Val.BoolV(v.t)
    if k == "int":
        return Val.IntV(v.t)
    if k == "str":
        return Val.StrV(v.t)
    if k == "bytes":
        return Val.BytesV(v.t)
    if k == "float":
        return Val.FloatV(v.t)
    if k in REFKINDS:
        return Val.RefV(v.t)
    if k == "cls":
        return Val.ClsV(v.t)
    raise Unsupported("cannot box value of kind %s" % k)


class Unsupported(Exception):
    """The function left the supported subset: its obligations are reported undecided."""


class SpecError(Exception):
    """A contract is malformed (checker error, never a violation)."""
