"""Frontend: re-reads the real sources of /repo on every run (optionally with an in-memory overlay
used by the canaries), indexes functions/classes/module globals, resolves imports.
Nothing is copied or rewritten: the FunctionDef nodes handed to the executor are those of the file
as it is on disk now."""
import ast
import os

REPO = os.environ.get("PYVC_REPO", "/repo")


class Module:
    def __init__(self, path, src):
        self.path = path
        self.src = src
        self.tree = ast.parse(src)
        self.defs = {}       # name -> FunctionDef
        self.classes = {}    # name -> ClassDef
        self.assigns = {}    # name -> [value expr]   (module-level assignments)
        self.imports = {}    # name -> ("mod", relpath) | ("from", relpath-or-ext, name) | ("ext", dotted)
        self._index(self.tree.body)

    def _index(self, body):
        for n in body:
            if isinstance(n, (ast.FunctionDef, ast.AsyncFunctionDef)):
                self.defs[n.name] = n
            elif isinstance(n, ast.ClassDef):
                self.classes[n.name] = n
            elif isinstance(n, ast.Assign):
                for t in n.targets:
                    if isinstance(t, ast.Name):
                        self.assigns.setdefault(t.id, []).append(n.value)
            elif isinstance(n, ast.AnnAssign) and isinstance(n.target, ast.Name) and n.value is not None:
                self.assigns.setdefault(n.target.id, []).append(n.value)
            elif isinstance(n, ast.AugAssign) and isinstance(n.target, ast.Name):
                self.assigns.setdefault(n.target.id, []).append(None)
            elif isinstance(n, ast.Import):
                for a in n.names:
                    self.imports[(a.asname or a.name).split(".")[0]] = ("ext", a.name if a.asname else a.name.split(".")[0])
            elif isinstance(n, ast.ImportFrom):
                for a in n.names:
                    nm = a.asname or a.name
                    if n.level > 0:
                        base = os.path.dirname(self.path)
                        for _ in range(n.level - 1):
                            base = os.path.dirname(base)
                        if n.module:
                            self.imports[nm] = ("from", os.path.join(base, n.module.replace(".", "/") + ".py"), a.name)
                        else:
                            self.imports[nm] = ("pkg", base, a.name)
                    else:
                        self.imports[nm] = ("ext", n.module + "." + a.name)
            elif isinstance(n, (ast.If, ast.Try)):
                # module-level conditionals (e.g. `try: from orjson import ...`): index both arms,
                # first binding wins (the try body / the if body)
                for sub in ([n.body] + ([n.orelse] if n.orelse else []) +
                            ([h.body for h in n.handlers] if isinstance(n, ast.Try) else [])):
                    saved = (dict(self.defs), dict(self.classes), dict(self.assigns), dict(self.imports))
                    before = set().union(*[set(t) for t in saved])
                    self._index(sub)
                    for cur, old in zip((self.defs, self.classes, self.assigns, self.imports), saved):
                        for k in list(cur):
                            if k in old:
                                cur[k] = old[k]
                            elif k in before:
                                del cur[k]      # bound earlier under another kind (import vs def): the first binding wins


class Frontend:
    def __init__(self, root=None, overlay=None):
        self.root = root or REPO
        self.overlay = overlay or {}
        self.mods = {}

    def source(self, path):
        if path in self.overlay:
            return self.overlay[path]
        with open(os.path.join(self.root, path)) as f:
            return f.read()

    def exists(self, path):
        return path in self.overlay or os.path.exists(os.path.join(self.root, path))

    def load(self, path):
        if path not in self.mods:
            self.mods[path] = Module(path, self.source(path))
        return self.mods[path]

    def find(self, path, qualname):
        """-> (node, class ClassDef or None, [enclosing FunctionDefs])"""
        mod = self.load(path)
        parts = qualname.split(".")
        node = None
        cls = None
        body = mod.tree.body
        encl = []
        for i, p in enumerate(parts):
            found = None
            for n in _walk_defs(body):
                if isinstance(n, (ast.FunctionDef, ast.AsyncFunctionDef, ast.ClassDef)) and n.name == p:
                    found = n
                    break
            if found is None:
                raise KeyError("%s::%s not found (at %r)" % (path, qualname, p))
            if isinstance(found, ast.ClassDef):
                cls = found
            elif i < len(parts) - 1:
                encl.append(found)
            node = found
            body = found.body
        return node, (cls if not encl else None), encl

    def class_def(self, path, name):
        mod = self.load(path)
        return mod.classes.get(name)

    def resolve_class(self, path, name, _depth=0):
        """follow imports to the module defining class `name`; -> (path, ClassDef) or None"""
        mod = self.load(path)
        if name in mod.classes:
            return path, mod.classes[name]
        imp = mod.imports.get(name)
        if imp and imp[0] == "from" and self.exists(imp[1]) and _depth < 6:
            return self.resolve_class(imp[1], imp[2], _depth + 1)
        if imp and imp[0] == "pkg" and _depth < 6:
            init = os.path.join(imp[1], "__init__.py")
            if self.exists(init):
                return self.resolve_class(init, imp[2], _depth + 1)
        return None


def _walk_defs(body):
    """definitions directly in a body, looking through if/try/with/for/while blocks"""
    for n in body:
        if isinstance(n, (ast.FunctionDef, ast.AsyncFunctionDef, ast.ClassDef)):
            yield n
        elif isinstance(n, (ast.If, ast.For, ast.While, ast.With)):
            yield from _walk_defs(n.body)
            yield from _walk_defs(getattr(n, "orelse", []) or [])
        elif isinstance(n, ast.Try):
            yield from _walk_defs(n.body)
            for h in n.handlers:
                yield from _walk_defs(h.body)
            yield from _walk_defs(n.orelse)
            yield from _walk_defs(n.finalbody)


def loops_of(fn):
    """loops in source order (pre-order), not descending into nested function definitions"""
    out = []

    def visit(body):
        for n in body:
            if isinstance(n, (ast.FunctionDef, ast.AsyncFunctionDef, ast.ClassDef)):
                continue
            if isinstance(n, (ast.For, ast.While)):
                out.append(n)
            for f in ("body", "orelse", "finalbody"):
                if hasattr(n, f) and isinstance(getattr(n, f), list):
                    visit(getattr(n, f))
            if isinstance(n, ast.Try):
                for h in n.handlers:
                    visit(h.body)
    visit(fn.body)
    return out
