"""Expression evaluation (forking, with exceptions as outcomes) on top of Engine."""
import ast
import z3

from .sorts import (Val, Ev, SeqV, SeqE, SetV, MapV, I, B, S, clsof, issub, cls_module, cls_name,
                    cls_qualname, SV, REFKINDS, box, Unsupported, SpecError)
from . import spec as SP
from .engine import Engine, Res, State, NoneV

BUILTIN_NAMES = {"len", "str", "repr", "isinstance", "int", "dict", "list", "set", "tuple", "sorted", "zip", "map",
                 "any", "all", "hash", "type", "getattr", "hasattr", "object", "bool", "float", "bytes", "print",
                 "super", "issubclass", "iter", "next", "range", "enumerate", "min", "max", "id", "callable",
                 "reversed", "sum", "eval", "compile", "globals", "staticmethod", "classmethod", "property", "frozenset"}


class EvalMixin:
    # ------------------------------------------------------------------ plumbing
    def chain(self, st, exprs, k):
        """evaluate exprs left to right; k(st, [vals]) -> [Res]; exceptions short-circuit"""
        def go(st, i, vals):
            if i == len(exprs):
                return k(st, vals)
            out = []
            for r in self.ev(exprs[i], st):
                if r.exc is not None:
                    out.append(r)
                else:
                    out.extend(go(r.st, i + 1, vals + [r.val]))
            return out
        return go(st, 0, [])

    def raise_new(self, st, clsname, *args):
        """allocate an exception object of a known class -> Res(exc=...)"""
        r = self.alloc(st, clsname)
        e = SV("inst", r, h=clsname, x="exc")
        return Res(st, exc=e)

    def may_raise(self, st, ok, clsname, k, label=None):
        """fork on partial operation: ok -> k(st) ; not ok -> raise clsname. In spec mode: total."""
        if st.spec:
            return k(st)
        out = []
        for s2, b in self.fork(st, ok, label):
            if b:
                out.extend(k(s2))
            else:
                out.append(self.raise_new(s2, clsname))
        return out

    def modpath(self, st):
        f = st.fid
        while f is not None:
            fr = st.frames[f]
            if fr.get("$module"):
                return fr["$module"]
            f = fr["$parent"]
        return None

    # ------------------------------------------------------------------ names
    def lookup(self, st, name):
        if st.spec and name in ("result", "exc", "yielded") and name in st.res:
            # the contract's specials win over an equally named local variable of the function (`result = f(...)`)
            return st.res[name]
        f = st.fid
        while f is not None:
            fr = st.frames[f]
            if name in fr:
                v = fr[name]
                if v is None:
                    raise Unsupported("unbound local " + name)
                return v
            f = fr["$parent"]
        if st.spec:
            if name in st.res:
                return st.res[name]
            if self.cur is not None and name in self.cur.extra.get("aliases", {}):
                av = self.alias_values(st)
                if name in av:
                    return av[name]
                return SV("val", z3.Const("unassigned!" + name, Val))     # the local has not been assigned on this path
            if name == "me":
                return SV("int", self.me_of(st))
            if name == "LASTKW":
                return SV("sdict", (self.harr(st, "#LASTKWDOM"), self.harr(st, "#LASTKWMAP")))
            if name == "UNSET":
                return SV("val", Val.ClsV(z3.IntVal(-1)))
            if name in SP.SPECFUNS or name in self.spec_builtins:
                return SV("specfun", name)
            if name.isupper() and ("#" + name) in ["#" + g for g in self.ghost_names()]:
                return self.ghost_value(st, name)
        return self.module_global(st, self.modpath(st), name)

    def ghost_names(self):
        from .engine import GHOST_SORTS
        return GHOST_SORTS.keys()

    def ghost_value(self, st, name):
        from .engine import GHOST_SORTS
        t = self.harr(st, "#" + name)
        sort = GHOST_SORTS[name]
        if sort == SeqE:
            return SV("seqe", t)
        if sort == I:
            return SV("int", t)
        if sort == Val:
            return SV("val", t)
        if sort == SeqV:
            return SV("seq", t)
        return SV("garr", t, h=name)

    def singleton(self, st, key, hint):
        if key in st.globals_seen:
            return st.globals_seen[key]
        g = z3.Int("g!" + key)
        st.assume(g >= 1)
        st.assume(g <= self.harr(st, "$alloc") if "$alloc" not in st.heap0 else g <= st.heap0["$alloc"])
        for k2, v2 in st.globals_seen.items():
            if v2.k in REFKINDS and isinstance(v2.t, z3.ExprRef):
                st.assume(g != v2.t)
        if hint and (hint in self.class_index or self.ct.has(hint)):
            st.assume(clsof(g) == self._register_class(hint))
            v = SV("inst", g, h=hint)
        elif hint and hint.startswith("role:"):
            v = SV("obj", g, h=hint[5:])
        else:
            v = SV("obj", g, h=None)
        st.globals_seen[key] = v
        for fact in SP.MODULE_FACTS.get(key, []):
            self.assumptions.add("module initialisation fact %s: %s (cross-checked natively)" % (key, fact))
            ss = st.copy()
            ss.spec = True
            fid = ss.new_frame(None, self.modpath(st))
            ss.frames[fid]["X"] = v
            ss.fid = fid
            t = self.truth(ss, self.ev1(SP.parse_expr(fact), ss))
            for extra in ss.pc[len(st.pc):]:
                st.pc.append(extra)
            for nm, arr in ss.heap.items():
                if nm not in st.heap:
                    st.heap[nm] = arr
            st.assume(t)
        return v

    def module_global(self, st, path, name, depth=0):
        if depth > 8:
            raise Unsupported("import chain too deep for " + name)
        if name == "__file__" and path is not None:
            return SV("str", z3.String("file!" + path))
        if path is not None and self.fe.exists(path):
            mod = self.fe.load(path)
            if (path, name) in self.mutable_globals and name in mod.assigns:
                hint = SP.GLOBAL_HINTS.get(path + ":" + name)
                v = self.hget(st, "@" + path + ":" + name, z3.IntVal(0))
                return self.concretize(st, self.from_val(st, v, hint)) if hint else SV("val", v)
            if (path + ":" + name) in SP.GLOBAL_HINTS and name not in mod.defs and name not in mod.classes and \
                    SP.GLOBAL_HINTS[path + ":" + name].startswith("role:"):
                return self.singleton(st, path + ":" + name, SP.GLOBAL_HINTS[path + ":" + name])
            if name in mod.defs:
                return SV("func", mod.defs[name], x={"module": path, "env": None, "cls": None, "qual": name})
            if name in mod.classes:
                return SV("cls", z3.IntVal(self._register_class(name)), h=name)
            if name in mod.assigns and len(mod.assigns[name]) == 1 and mod.assigns[name][0] is not None:
                return self.global_init(st, path, name, mod.assigns[name][0])
            if name in mod.imports:
                imp = mod.imports[name]
                if imp[0] == "from":
                    if self.fe.exists(imp[1]):
                        return self.module_global(st, imp[1], imp[2], depth + 1)
                    raise Unsupported("import from missing module " + imp[1])
                if imp[0] == "pkg":
                    cand = imp[1] + "/" + imp[2] + ".py"
                    if self.fe.exists(cand):
                        return SV("module", cand)
                    return self.module_global(st, imp[1] + "/__init__.py", imp[2], depth + 1)
                if imp[0] == "ext":
                    return SV("ext", imp[1])
        if name in BUILTIN_NAMES:
            return SV("builtin", name)
        if self.ct.has(name):
            return SV("cls", z3.IntVal(self.ct.id(name)), h=name)
        raise Unsupported("unresolved name %s in %s" % (name, path))

    def global_init(self, st, path, name, e):
        """value of a single-assignment module global"""
        key = path + ":" + name
        if isinstance(e, ast.Constant):
            return self.const(e.value)
        if isinstance(e, (ast.Tuple, ast.List)) and all(isinstance(x, (ast.Constant, ast.Name, ast.Attribute)) for x in e.elts):
            items = [self.const(x.value) if isinstance(x, ast.Constant) else self.module_global(st, path, x.id) if isinstance(x, ast.Name)
                     else self.global_init(st, path, name + "$%d" % i, x) for i, x in enumerate(e.elts)]
            return SV("tuple", None, x=items)
        if isinstance(e, ast.Set) and all(isinstance(x, (ast.Constant, ast.Name)) for x in e.elts):
            items = [self.const(x.value) if isinstance(x, ast.Constant) else self.module_global(st, path, x.id) for x in e.elts]
            return SV("cset", None, x=items)
        if isinstance(e, ast.Name):
            return self.module_global(st, path, e.id)
        if isinstance(e, ast.Lambda):
            return SV("func", e, x={"module": path, "env": None, "cls": None, "qual": name})
        if isinstance(e, ast.Attribute):
            s2 = st
            fid = s2.new_frame(None, path)
            saved = s2.fid
            s2.fid = fid
            try:
                rs = self.ev(e, s2)
            finally:
                s2.fid = saved
            if len(rs) == 1 and rs[0].exc is None:
                return rs[0].val
            raise Unsupported("module global %s: non-deterministic initialiser" % key)
        if isinstance(e, ast.Call):
            fn = e.func
            fname = fn.id if isinstance(fn, ast.Name) else (fn.attr if isinstance(fn, ast.Attribute) else None)
            if fname == "ContextVar":
                return SV("ctxvar", key)
            hint = SP.GLOBAL_HINTS.get(key)
            if hint is None and fname in self.class_index:
                hint = fname
            return self.singleton(st, key, hint)
        if isinstance(e, ast.BinOp) and isinstance(e.op, ast.BitOr):
            a = self.global_init(st, path, name + "$l", e.left)
            b = self.global_init(st, path, name + "$r", e.right)
            if a.k == "cset" and b.k == "cset":
                return SV("cset", None, x=a.x + b.x)
        raise Unsupported("module global %s has an initialiser outside the subset" % key)

    def const(self, c):
        if c is None:
            return SV("none")
        if isinstance(c, bool):
            return SV("bool", z3.BoolVal(c))
        if isinstance(c, int):
            return SV("int", z3.IntVal(c))
        if isinstance(c, str):
            return SV("str", z3.StringVal(c))
        if isinstance(c, bytes):
            return SV("bytes", z3.StringVal(c.decode("latin-1")))
        if isinstance(c, float):
            return SV("float", z3.Int("float!%r" % c))
        if c is Ellipsis:
            return SV("none")
        raise Unsupported("constant %r" % (c,))

    # ------------------------------------------------------------------ expressions
    def ev(self, e, st):
        m = getattr(self, "ev_" + type(e).__name__, None)
        if m is None:
            raise Unsupported("expression " + type(e).__name__)
        return m(e, st)

    def ev1(self, e, st):
        """spec-mode single-result evaluation"""
        rs = self.ev(e, st)
        if len(rs) != 1 or rs[0].exc is not None:
            raise SpecError("spec expression forks or raises: " + ast.unparse(e))
        return rs[0].val

    def ev_Constant(self, e, st):
        return [Res(st, self.const(e.value))]

    def ev_Name(self, e, st):
        try:
            return [Res(st, self.lookup(st, e.id))]
        except Unsupported as ex:
            # a local variable of the executing function that is not bound on this path: UnboundLocalError (Python semantics);
            # names that are not locals stay "outside the subset" (the frontend may simply not know them)
            fn = st.frames.get(st.fid, {}).get("$fn")
            if not st.spec and fn is not None and isinstance(fn, (ast.FunctionDef, ast.AsyncFunctionDef)) and \
                    str(ex).startswith(("unresolved name", "unbound local")):
                from .loopx import assigned_names
                if e.id in assigned_names(fn.body) and e.id not in [a.arg for a in fn.args.args + fn.args.kwonlyargs + fn.args.posonlyargs]:
                    return [self.raise_new(st, "UnboundLocalError")]
            raise

    def ev_Tuple(self, e, st):
        if any(isinstance(x, ast.Starred) for x in e.elts):
            raise Unsupported("starred in tuple display")
        return self.chain(st, e.elts, lambda s, vs: [Res(s, SV("tuple", None, x=vs))])

    def ev_List(self, e, st):
        def k(s, vs):
            if s.spec and vs and all(v.k == "ev" for v in vs):
                units = [z3.Unit(v.t) for v in vs]
                return [Res(s, SV("seqe", units[0] if len(units) == 1 else z3.Concat(*units)))]
            seq = self.mkseq([box(self.heapify(s, v)) for v in vs])
            if s.spec:
                return [Res(s, SV("seq", seq))]
            return [Res(s, self.new_list(s, seq))]
        return self.chain(st, e.elts, k)

    def mkseq(self, items):
        if not items:
            return z3.Empty(SeqV)
        units = [z3.Unit(x) for x in items]
        return units[0] if len(units) == 1 else z3.Concat(*units)

    def heapify(self, st, v):
        """make a value storable in the heap (static tuples become tuple objects)"""
        if v.k == "tuple":
            if st.spec:
                raise SpecError("tuple inside spec container")
            return self.new_tuple_obj(st, self.mkseq([box(self.heapify(st, x)) for x in v.x]))
        if v.k in ("func", "bound", "builtin", "ext", "meth", "module", "ctxvar", "specfun"):
            return self.funcobj(st, v)
        if v.k == "cset":
            raise Unsupported("constant set stored in heap")
        return v

    def funcobj(self, st, v):
        """function values stored in the heap become opaque refs remembered on the side"""
        key = id(v.t) if v.k == "func" else (v.k, str(v.t))
        tab = st.snap.setdefault("$funcs", {})
        for r, (k2, v2) in tab.items():
            if k2 == key and v2.x is v.x:
                return SV("obj", z3.IntVal(0) + r, h="$func")
        r = self.alloc(st, "function")
        tab = dict(tab)
        tab[r] = (key, v)
        st.snap["$funcs"] = tab
        return SV("obj", r, h="$func")

    def ev_Dict(self, e, st):
        if any(k is None for k in e.keys):
            raise Unsupported("dict unpacking display")
        def k(s, vs):
            n = len(e.keys)
            dom = z3.K(Val, z3.BoolVal(False))
            mp = z3.K(Val, NoneV)
            for kk, vv in zip(vs[:n], vs[n:]):
                kb = box(kk)
                dom = z3.Store(dom, kb, z3.BoolVal(True))
                mp = z3.Store(mp, kb, box(self.heapify(s, vv)))
            if s.spec:
                return [Res(s, SV("sdict", (dom, mp)))]
            return [Res(s, self.new_dict(s, dom, mp))]
        return self.chain(st, list(e.keys) + list(e.values), k)

    def ev_Set(self, e, st):
        def k(s, vs):
            return [Res(s, SV("cset", None, x=vs))]
        return self.chain(st, e.elts, k)

    def ev_Lambda(self, e, st):
        return [Res(st, SV("func", e, x={"module": self.modpath(st), "env": st.fid, "cls": None, "qual": "<lambda>"}))]

    def ev_IfExp(self, e, st):
        if st.spec:
            c = self.truth(st, self.ev1(e.test, st))
            a = self.ev1(e.body, st)
            b = self.ev1(e.orelse, st)
            return [Res(st, self.ite(st, c, a, b))]
        out = []
        for r in self.ev(e.test, st):
            if r.exc is not None:
                out.append(r)
                continue
            for s2, b in self.fork(r.st, self.truth(r.st, r.val), self.ordinal(e, "ifexp")):
                out.extend(self.ev(e.body if b else e.orelse, s2))
        return out

    def ite(self, st, c, a, b):
        if z3.is_true(z3.simplify(c)):
            return a
        if z3.is_false(z3.simplify(c)):
            return b
        if a.k == b.k and a.k in ("int", "bool", "str", "bytes", "seq", "seqe", "float", "cls"):
            return SV(a.k, z3.If(c, a.t, b.t))
        if a.k == b.k and a.k in REFKINDS and a.h == b.h:
            return SV(a.k, z3.If(c, a.t, b.t), h=a.h, x=a.x)
        if a.k == "sdict" or b.k == "sdict":
            da, ma = self.as_sdict(st, a)
            db, mb = self.as_sdict(st, b)
            return SV("sdict", (z3.If(c, da, db), z3.If(c, ma, mb)))
        return SV("val", z3.If(c, box(a), box(b)))

    def ev_BoolOp(self, e, st):
        if st.spec:
            ts = [self.truth(st, self.ev1(v, st)) for v in e.values]
            return [Res(st, SV("bool", z3.And(*ts) if isinstance(e.op, ast.And) else z3.Or(*ts)))]
        is_and = isinstance(e.op, ast.And)

        def go(st, i):
            out = []
            for r in self.ev(e.values[i], st):
                if r.exc is not None or i == len(e.values) - 1:
                    out.append(r)
                    continue
                for s2, b in self.fork(r.st, self.truth(r.st, r.val), self.ordinal(e.values[i], "boolop")):
                    if b == is_and:
                        out.extend(go(s2, i + 1))
                    else:
                        out.append(Res(s2, r.val))
            return out
        return go(st, 0)

    def ev_UnaryOp(self, e, st):
        out = []
        for r in self.ev(e.operand, st):
            if r.exc is not None:
                out.append(r)
                continue
            v = self.concretize(r.st, r.val)
            if isinstance(e.op, ast.Not):
                out.append(Res(r.st, SV("bool", z3.Not(self.truth(r.st, v)))))
            elif isinstance(e.op, ast.USub) and v.k == "int":
                out.append(Res(r.st, SV("int", -v.t)))
            else:
                raise Unsupported("unary op")
        return out

    def ev_Compare(self, e, st):
        def k(s, vs):
            conj = []
            for op, a, b in zip(e.ops, vs, vs[1:]):
                conj.append(self.compare(s, op, a, b))
            return [Res(s, SV("bool", z3.And(*conj) if len(conj) > 1 else conj[0]))]
        return self.chain(st, [e.left] + list(e.comparators), k)

    def compare(self, st, op, a, b):
        if isinstance(op, ast.Eq):
            return self.eq(st, a, b)
        if isinstance(op, ast.NotEq):
            return z3.Not(self.eq(st, a, b))
        if isinstance(op, ast.Is):
            return self.same(st, a, b)
        if isinstance(op, ast.IsNot):
            return z3.Not(self.same(st, a, b))
        if isinstance(op, (ast.In, ast.NotIn)):
            r = self.contains(st, b, a)
            return r if isinstance(op, ast.In) else z3.Not(r)
        a = self.concretize(st, a)
        b = self.concretize(st, b)
        if a.k == "int" and b.k == "int":
            return {ast.Lt: lambda: a.t < b.t, ast.LtE: lambda: a.t <= b.t, ast.Gt: lambda: a.t > b.t,
                    ast.GtE: lambda: a.t >= b.t}[type(op)]()
        raise Unsupported("comparison %s on %s,%s" % (type(op).__name__, a.k, b.k))

    def contains(self, st, cont, x):
        cont = self.concretize(st, cont)
        if cont.k == "tuple" or cont.k == "cset":
            return z3.Or(*[self.eq(st, x, y) for y in cont.x]) if cont.x else z3.BoolVal(False)
        if cont.k == "dict":
            return z3.Select(self.dom_of(st, cont), self.kbox(st, x))
        if cont.k == "sdict":
            return z3.Select(cont.t[0], self.kbox(st, x))
        if cont.k in ("list", "seq"):
            s = cont.t if cont.k == "seq" else self.seq_of(st, cont)
            return z3.Contains(s, z3.Unit(box(x)))
        if cont.k == "sset":
            return z3.Select(cont.t, box(x))
        if cont.k == "seqe":
            return z3.Contains(cont.t, z3.Unit(x.t))
        if cont.k == "str" and x.k == "str":
            return z3.Contains(cont.t, x.t)
        if cont.k == "garr":
            return z3.Select(cont.t, x.t if x.k in ("int",) + REFKINDS else box(x))
        raise Unsupported("membership in " + cont.k)

    def ev_BinOp(self, e, st):
        def k(s, vs):
            return self.binop(s, e.op, vs[0], vs[1])
        return self.chain(st, [e.left, e.right], k)

    def binop(self, st, op, a, b):
        a = self.concretize(st, a)
        b = self.concretize(st, b)
        if isinstance(op, ast.Add):
            if a.k == "val" and b.k == "int" and (a.h == "int" or st.spec):
                a = self.from_val(st, a.t, "int")
            if b.k == "val" and a.k == "int" and (b.h == "int" or st.spec):
                b = self.from_val(st, b.t, "int")
            if a.k == "int" and b.k == "int":
                return [Res(st, SV("int", a.t + b.t))]
            if a.k == b.k and a.k in ("str", "bytes"):
                return [Res(st, SV(a.k, z3.Concat(a.t, b.t)))]
            if a.k in ("seq", "list") and b.k in ("seq", "list"):
                sa = a.t if a.k == "seq" else self.seq_of(st, a)
                sb = b.t if b.k == "seq" else self.seq_of(st, b)
                if st.spec:
                    return [Res(st, SV("seq", z3.Concat(sa, sb)))]
                return [Res(st, self.new_list(st, z3.Concat(sa, sb), a.h))]
            if a.k == "seqe" and b.k == "seqe":
                return [Res(st, SV("seqe", z3.Concat(a.t, b.t)))]
            if not st.spec and ((a.k in ("str", "bytes") and b.k == "val") or (b.k in ("str", "bytes") and a.k == "val")):
                # text + dynamic value: concatenation if the value is text of the same kind, TypeError otherwise
                txt, dyn = (a, b) if b.k == "val" else (b, a)
                tester, acc = (Val.is_StrV, Val.sv) if txt.k == "str" else (Val.is_BytesV, Val.yv)
                def kcat(s2):
                    d = SV(txt.k, acc(dyn.t))
                    return [Res(s2, SV(txt.k, z3.Concat(a.t, d.t) if b.k == "val" else z3.Concat(d.t, b.t)))]
                return self.may_raise(st, tester(dyn.t), "TypeError", kcat)
            if a.k == "val" and b.k == "val" and not st.spec:
                # dynamic `+`: str+str / bytes+bytes concatenate, int+int adds, anything else is a TypeError
                out = []
                both_s = z3.And(Val.is_StrV(a.t), Val.is_StrV(b.t))
                both_y = z3.And(Val.is_BytesV(a.t), Val.is_BytesV(b.t))
                both_i = z3.And(Val.is_IntV(a.t), Val.is_IntV(b.t))
                for s1, c1 in self.fork(st, both_s, 'add:str'):
                    if c1:
                        out.append(Res(s1, SV("str", z3.Concat(Val.sv(a.t), Val.sv(b.t)))))
                        continue
                    for s2, c2 in self.fork(s1, both_y, 'add:bytes'):
                        if c2:
                            out.append(Res(s2, SV("bytes", z3.Concat(Val.yv(a.t), Val.yv(b.t)))))
                            continue
                        for s3, c3 in self.fork(s2, both_i, 'add:int'):
                            if c3:
                                out.append(Res(s3, SV("int", Val.iv(a.t) + Val.iv(b.t))))
                            else:
                                out.append(self.raise_new(s3, "TypeError"))
                return out
            if a.k == "val" and not st.spec:
                # TypeError unless int (element typed by declaration would have been unboxed)
                return self.may_raise(st, Val.is_IntV(a.t), "TypeError",
                                      lambda s: self.binop(s, op, SV("int", Val.iv(a.t)), b))
        if isinstance(op, ast.Sub):
            if a.k == "int" and b.k == "int":
                return [Res(st, SV("int", a.t - b.t))]
            if a.k in ("cset", "sset") or b.k in ("cset", "sset"):
                return [Res(st, SV("sset", z3.SetDifference(self.as_sset(st, a), self.as_sset(st, b))))]
        if isinstance(op, ast.Mult) and a.k == "int" and b.k == "int":
            return [Res(st, SV("int", a.t * b.t))]
        if isinstance(op, ast.Mult) and a.k == "str" and b.k == "int":
            return [Res(st, SV("str", self.fresh("strmul", S)))]
        if isinstance(op, ast.BitOr) and (a.k in ("cset", "sset") and b.k in ("cset", "sset")):
            return [Res(st, SV("sset", z3.SetUnion(self.as_sset(st, a), self.as_sset(st, b))))]
        if isinstance(op, ast.Mod) and a.k == "str":
            return self.str_format_percent(st, a, b)
        raise Unsupported("binary %s on %s,%s" % (type(op).__name__, a.k, b.k))

    def as_sset(self, st, v):
        if v.k == "sset":
            return v.t
        if v.k == "cset":
            s = z3.K(Val, z3.BoolVal(False))
            for x in v.x:
                s = z3.Store(s, box(x), z3.BoolVal(True))
            return s
        if v.k == "dict":
            return self.dom_of(st, v)
        if v.k == "sdict":
            return v.t[0]
        raise Unsupported("not a set: " + v.k)

    # --- subscripts
    def ev_Subscript(self, e, st):
        if isinstance(e.slice, ast.Slice):
            parts = [e.value] + [x for x in (e.slice.lower, e.slice.upper) if x is not None]
            if e.slice.step is not None:
                raise Unsupported("slice step")

            def k(s, vs):
                lo = vs[1] if e.slice.lower is not None else None
                hi = vs[-1] if e.slice.upper is not None else None
                return self.slice(s, vs[0], lo, hi)
            return self.chain(st, parts, k)
        return self.chain(st, [e.value, e.slice], lambda s, vs: self.index(s, vs[0], vs[1]))

    def norm_index(self, n, i):
        return z3.If(i < 0, n + i, i)

    def slice(self, st, base, lo, hi):
        # a dynamically typed bound (an attribute without declared type ...): an int, or slicing raises TypeError
        for which, b in (("lo", lo), ("hi", hi)):
            if b is not None and not st.spec:
                bc = self.concretize(st, b)
                if bc.k == "val":
                    def cont(s2, which=which, bc=bc):
                        iv = SV("int", Val.iv(bc.t))
                        return self.slice(s2, base, iv if which == "lo" else lo, iv if which == "hi" else hi)
                    return self.may_raise(st, z3.Or(Val.is_IntV(bc.t), bc.t == NoneV) if False else Val.is_IntV(bc.t), "TypeError", cont)
        base = self.concretize(st, base)
        if base.k in ("list", "seq"):
            sq = base.t if base.k == "seq" else self.seq_of(st, base)
        elif base.k in ("str", "bytes", "seqe"):
            sq = base.t
        else:
            raise Unsupported("slice of " + base.k)
        n = z3.Length(sq)

        def clamp(v, default):
            if v is None:
                return default
            v = self.concretize(st, v)
            if v.k != "int":
                raise Unsupported("slice bound kind " + v.k)
            x = self.norm_index(n, v.t)
            return z3.If(x < 0, 0, z3.If(x > n, n, x))
        a = clamp(lo, z3.IntVal(0))
        b = clamp(hi, n)
        a = z3.simplify(a)
        b = z3.simplify(b)
        res = z3.Extract(sq, a, z3.If(b - a < 0, 0, b - a))
        if base.k in ("str", "bytes", "seqe"):
            return [Res(st, SV(base.k, res))]
        if st.spec or base.k == "seq":
            return [Res(st, SV("seq", res, h=base.h))]
        out = self.new_list(st, res, base.h)
        out.x = base.x
        return [Res(st, out)]

    def index(self, st, base, idx):
        base = self.concretize(st, base)
        idx = self.concretize(st, idx)
        if base.k == "tuple":
            if idx.k == "int":
                i = z3.simplify(idx.t)
                if z3.is_int_value(i):
                    return [Res(st, base.x[i.as_long()])]
            raise Unsupported("symbolic index into static tuple")
        if base.k in ("list", "seq", "seqe"):
            if idx.k == "val" and idx.h is None and not st.spec:
                raise Unsupported("list index of unknown type")
            if idx.k != "int":
                raise Unsupported("list index kind " + idx.k)
            sq = base.t if base.k in ("seq", "seqe") else self.seq_of(st, base)
            n = z3.Length(sq)
            i = self.norm_index(n, idx.t)

            def k(s):
                el = sq[i]
                if base.k == "seqe":
                    return [Res(s, SV("ev", el))]
                return [Res(s, self.from_val(s, el, base.h) if base.h else SV("val", el))]
            return self.may_raise(st, z3.And(i >= 0, i < n), "IndexError", k)
        if base.k in ("dict", "sdict"):
            dom, mp = self.as_sdict(st, base)
            kb = self.kbox(st, idx)
            h = self.key_hint(base, idx)
            return self.may_raise(st, z3.Select(dom, kb), "KeyError",
                                  lambda s: [Res(s, self.from_val(s, z3.Select(mp, kb), h) if h else SV("val", z3.Select(mp, kb)))])
        if base.k == "garr":
            ix = idx.t if idx.k in ("int",) + REFKINDS else box(idx)
            t = z3.Select(base.t, ix)
            srt = t.sort()
            if srt == Val:
                return [Res(st, SV("val", t))]
            if srt == I:
                return [Res(st, SV("int", t))]
            if srt == B:
                return [Res(st, SV("bool", t))]
        if base.k == "val" and not st.spec:
            # x[k] on a dynamically typed value: a dict object behaves as a dict; anything else is whatever its __getitem__ does
            # (an opaque call that may return or raise anything); primitives other than str raise TypeError
            isdict = z3.And(Val.is_RefV(base.t), clsof(Val.rv(base.t)) == self.ct.id("dict"))
            out = []
            for s2, b in self.fork(st, isdict, "subscript:dict"):
                if b:
                    out.extend(self.index(s2, SV("dict", Val.rv(base.t)), idx))
                else:
                    for s3, b3 in self.fork(s2, Val.is_RefV(base.t), "subscript:obj"):
                        if b3:
                            out.extend(self.call_opaque(s3, SV("obj", Val.rv(base.t), h="Opaque"), "Opaque", "__getitem__", [idx], {}, None, None))
                        else:
                            # a primitive: text yields some element or IndexError/TypeError (not interpreted), anything else TypeError
                            s4 = s3.copy()
                            out.append(self.raise_new(s4, "TypeError"))
                            for s5, b5 in self.fork(s3, z3.Or(Val.is_StrV(base.t), Val.is_BytesV(base.t)), "subscript:text"):
                                if b5:
                                    s6 = s5.copy()
                                    out.append(self.raise_new(s6, "IndexError"))
                                    out.append(Res(s5, SV("val", self.fresh("elem", Val))))
            return out
        raise Unsupported("subscript of " + base.k)

    def key_hint(self, d, key):
        """dict hints: 'dict[K1=T1;K2=T2;*=T]' (TypedDict-like) or 'dict[T]' (all values T)"""
        h = d.h
        if not h:
            return None
        if h.startswith("str->"):
            h = h[5:]
        if "=" not in h:
            return h
        kt = z3.simplify(key.t) if key.k == "str" else None
        default = None
        for part in h.split(";"):
            kname, t = part.split("=", 1)
            if kname == "*":
                default = t
            elif kt is not None and z3.is_string_value(kt) and kt.as_string() == kname.rstrip("?"):
                return t
        return default

    # --- attributes
    def ev_Attribute(self, e, st):
        out = []
        for r in self.ev(e.value, st):
            if r.exc is not None:
                out.append(r)
            else:
                out.extend(self.getattr(r.st, r.val, e.attr))
        return out

    def find_member(self, cname, attr):
        for c in self.repo_mro(cname):
            p, cdef = self.class_index[c]
            for n in cdef.body:
                if isinstance(n, ast.FunctionDef) and n.name == attr:
                    return p, c, n
                if isinstance(n, ast.Assign):
                    for t in n.targets:
                        if isinstance(t, ast.Name) and t.id == attr:
                            return p, c, n
        return None

    def func_kind(self, fn):
        for d in fn.decorator_list:
            nm = d.id if isinstance(d, ast.Name) else (d.attr if isinstance(d, ast.Attribute) else None)
            if nm in ("classmethod", "staticmethod", "property", "contextmanager"):
                return nm
        return None

    def getattr(self, st, obj, attr):
        obj = self.concretize(st, obj)
        k = obj.k
        if k == "none" and not st.spec and attr not in dir(None):
            return [self.raise_new(st, "AttributeError")]       # 'NoneType' object has no attribute ...
        if k == "module":
            return [Res(st, self.module_global(st, obj.t, attr))]
        if k == "ext":
            return [Res(st, SV("ext", obj.t + "." + attr))]
        if k == "inst" and obj.h == "Context" and attr == "run":
            return [Res(st, SV("meth", (obj, attr)))]
        if k == "inst" and obj.h == "Lock" and attr in ("acquire", "release", "locked"):
            return [Res(st, SV("meth", (obj, attr)))]
        if k == "inst" and attr in ("transform", "set") and self.is_pclass(obj.h) and self.find_member(obj.h, attr) is None:
            return [Res(st, SV("meth", (obj, attr)))]
        if k == "val" and obj.h and "|" in obj.h and "[" not in obj.h and not st.spec:
            # union of exact classes: fork on the class, then the attribute is that of the instance
            return self.union_attr(st, obj, obj.h.split("|"), attr)
        if k == "inst":
            if attr == "__class__":
                if obj.x in ("exc", "sub"):
                    return [Res(st, SV("cls", clsof(obj.t)))]
                return [Res(st, SV("cls", clsof(obj.t), h=obj.h))]
            mem = self.find_member(obj.h, attr) if obj.h else None
            if mem is not None and isinstance(mem[2], ast.Assign) and isinstance(mem[2].value, ast.Call):
                fnm = mem[2].value.func
                fnm = fnm.id if isinstance(fnm, ast.Name) else getattr(fnm, "attr", "")
                if fnm in ("field", "pmap_field", "pset_field", "pvector_field", "pyrsistent_field"):
                    mem = None      # a pyrsistent field declaration: the value lives on the instance
            if mem is not None:
                p, c, n = mem
                if isinstance(n, ast.FunctionDef):
                    fk = self.func_kind(n)
                    f = SV("func", n, x={"module": p, "env": None, "cls": c, "qual": c + "." + attr})
                    if fk == "property":
                        if st.spec:
                            # a property whose body is not a pure expression of fields cannot be read in a contract: the name then
                            # denotes the (unconstrained) heap cell of that name -- contracts use spec functions instead
                            saved_fid, saved_depth = st.fid, st.depth
                            try:
                                return self.call(st, f, [obj], {})
                            except SpecError:
                                st.fid, st.depth = saved_fid, saved_depth
                                return [Res(st, SV("val", self.hget(st, attr, obj.t)))]
                        return self.call(st, f, [obj], {})
                    if fk == "staticmethod":
                        return [Res(st, f)]
                    if fk == "classmethod":
                        return [Res(st, SV("bound", f, x=SV("cls", clsof(obj.t), h=obj.h)))]
                    return [Res(st, SV("bound", f, x=obj))]
                cav = self.class_attr(st, p, c, attr, n)
                if cav.k == "func" and isinstance(cav.t, ast.FunctionDef) and cav.x.get("cls") and isinstance(n.value, ast.Name):
                    # `alias = method` in the class body: still a method when looked up on an instance
                    fk2 = self.func_kind(cav.t)
                    if fk2 is None:
                        return [Res(st, SV("bound", cav, x=obj))]
                    if fk2 == "classmethod":
                        return [Res(st, SV("bound", cav, x=SV("cls", clsof(obj.t), h=obj.h)))]
                return [Res(st, cav)]
            h = self.field_hint(obj.h, attr)
            if not st.spec:
                self.check_held(st, obj, attr)
            v = self.hget(st, attr, obj.t)
            if h is None or h.startswith("Opt[") or h in ("Any", "val"):
                st.assume(z3.Implies(Val.is_RefV(v), z3.And(Val.rv(v) >= 1, Val.rv(v) <= self.alloc_bound(st, Val.rv(v)))))
            return [Res(st, self.from_val(st, v, h))]
        if k == "obj":
            if attr == "__class__":
                return [Res(st, SV("cls", clsof(obj.t)))]
            h = self.field_hint("role:" + obj.h, attr) if obj.h else None
            if obj.h and ("iface::%s.%s" % (obj.h, attr)) in SP.CONTRACTS:
                return [Res(st, SV("meth", (obj, attr)))]
            return [Res(st, self.from_val(st, self.hget(st, attr, obj.t), h))]
        if k == "cls":
            if attr == "__module__":
                return [Res(st, SV("str", cls_module(obj.t)))]
            if attr == "__name__":
                return [Res(st, SV("str", cls_name(obj.t)))]
            if attr == "__qualname__":
                return [Res(st, SV("str", cls_qualname(obj.t)))]
            if obj.h and obj.h in self.class_index:
                mem = self.find_member(obj.h, attr)
                if mem is not None:
                    p, c, n = mem
                    if isinstance(n, ast.FunctionDef):
                        fk = self.func_kind(n)
                        f = SV("func", n, x={"module": p, "env": None, "cls": c, "qual": c + "." + attr})
                        if fk == "classmethod":
                            return [Res(st, SV("bound", f, x=obj))]
                        return [Res(st, f)]
                    cav = self.class_attr(st, p, c, attr, n)
                    if cav.k == "func" and isinstance(cav.t, ast.FunctionDef) and cav.x.get("cls") and isinstance(n.value, ast.Name) \
                            and self.func_kind(cav.t) == "classmethod":
                        # `alias = classmethod_name` in the class body, looked up on the class: bound to the class
                        return [Res(st, SV("bound", cav, x=obj))]
                    return [Res(st, cav)]
            if obj.h in ("Exception", "PClass") and attr in ("__init__", "__new__"):
                return [Res(st, SV("builtin", obj.h + "." + attr))]
            raise Unsupported("class attribute %s.%s" % (obj.h, attr))
        if k in ("list", "dict", "str", "bytes", "seq", "sdict", "cset", "sset", "ctxvar", "float", "int"):
            return [Res(st, SV("meth", (obj, attr)))]
        if k == "ev":
            acc = {"tag": (Ev.tag, "str"), "a": (Ev.a, "val"), "b": (Ev.b, "val"), "c": (Ev.c, "val"), "d": (Ev.d, "val"),
                   "e": (Ev.e, "val"), "f": (Ev.f, "val"), "g": (Ev.g, "val")}[attr]
            return [Res(st, SV(acc[1], acc[0](obj.t)))]
        if k == "val":
            if not st.spec:
                # narrowing by a preceding isinstance test
                for tester, kind, acc in ((Val.is_StrV, "str", Val.sv), (Val.is_BytesV, "bytes", Val.yv)):
                    if self.implied(st, tester(obj.t)):
                        return self.getattr(st, SV(kind, acc(obj.t)), attr)
                if self.implied(st, z3.And(Val.is_RefV(obj.t), issub(clsof(Val.rv(obj.t)), self.ct.id("dict")))):
                    # isinstance(x, dict) established on this path (subclasses of dict behave as dicts for the methods used)
                    st.assume(clsof(Val.rv(obj.t)) == self.ct.id("dict"))
                    return self.getattr(st, SV("dict", Val.rv(obj.t)), attr)
            if st.spec or self.implied(st, Val.is_RefV(obj.t)):
                r = Val.rv(obj.t)
                if attr == "__class__":
                    return [Res(st, SV("cls", clsof(r)))]
                return [Res(st, SV("val", self.hget(st, attr, r)))]
            if attr == "__class__":
                return [Res(st, SV("cls", self.class_of_val(obj.t)))]
            prim_attrs = set(dir(str)) | set(dir(bytes)) | set(dir(int)) | set(dir(float)) | set(dir(bool)) | set(dir(type(None)))
            if attr not in prim_attrs:
                # a primitive value (None, int, float, bool, str, bytes) has no such attribute; an object may
                return self.may_raise(st, Val.is_RefV(obj.t), "AttributeError",
                                      lambda s: [Res(s, SV("val", self.hget(s, attr, Val.rv(obj.t))))])
            raise Unsupported("attribute %s of untyped value" % attr)
        if k == "func":
            # attributes stored on function objects (wrapper.debug): one heap cell per (function node, attr)
            return [Res(st, SV("val", self.hget(st, "fattr:" + attr, z3.IntVal(0))))]
        raise Unsupported("attribute %s of %s" % (attr, k))

    def union_attr(self, st, obj, alts, attr):
        r = Val.rv(obj.t)
        cid = self._register_class(alts[0])
        if len(alts) == 1:
            st.assume(clsof(r) == cid)
            return self.getattr(st, SV("inst", r, h=alts[0]), attr)
        out = []
        for s2, b in self.fork(st, clsof(r) == cid, "is:" + alts[0]):
            if b:
                out.extend(self.getattr(s2, SV("inst", r, h=alts[0]), attr))
            else:
                out.extend(self.union_attr(s2, obj, alts[1:], attr))
        return out

    def class_of_val(self, v):
        ct = self.ct
        return z3.If(Val.is_RefV(v), clsof(Val.rv(v)),
               z3.If(Val.is_StrV(v), ct.id("str"), z3.If(Val.is_IntV(v), ct.id("int"),
               z3.If(Val.is_BoolV(v), ct.id("bool"), z3.If(Val.is_BytesV(v), ct.id("bytes"),
               z3.If(Val.is_FloatV(v), ct.id("float"), ct.id("NoneType")))))))

    def class_attr(self, st, p, c, attr, node):
        """class-level assignment `attr = <expr>`"""
        e = node.value
        key = p + ":" + c + "." + attr
        if isinstance(e, ast.Constant):
            return self.const(e.value)
        if isinstance(e, ast.Name):
            return self.module_or_class_name(st, p, c, e.id)
        if isinstance(e, ast.Call):
            fn = e.func
            fname = fn.id if isinstance(fn, ast.Name) else (fn.attr if isinstance(fn, ast.Attribute) else None)
            if fname == "staticmethod" and len(e.args) == 1 and isinstance(e.args[0], ast.Name):
                return self.module_global(st, p, e.args[0].id)
            hint = SP.GLOBAL_HINTS.get(key)
            if hint is None and fname in self.class_index:
                hint = fname
            return self.singleton(st, key, hint)
        if isinstance(e, ast.Attribute):
            return self.global_init(st, p, c + "." + attr, e)
        raise Unsupported("class attribute initialiser " + key)

    def module_or_class_name(self, st, p, c, name):
        mem = self.find_member(c, name)
        if mem and isinstance(mem[2], ast.FunctionDef):
            pp, cc, n = mem
            return SV("func", n, x={"module": pp, "env": None, "cls": cc, "qual": cc + "." + name})
        return self.module_global(st, p, name)
