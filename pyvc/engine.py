"""Symbolic executor / verification-condition generator over the real ASTs of /repo.

exec_function(key) runs one function of /repo against its sidecar contract and returns named
obligations; callers use callee *contracts* (functions flagged inline=True are expanded instead).
See DESIGN.md sections 3 and 4 for the encoding and what it assumes."""
import ast
import itertools
import z3

from .sorts import (Val, Ev, SeqV, SeqE, SetV, MapV, I, B, S, clsof, issub, cls_module, cls_name,
                    cls_qualname, ClassTable, SV, REFKINDS, box, Unsupported, SpecError)
from . import spec as SP
from .frontend import Frontend, loops_of

NoneV = Val.NoneV
BUDGET_MS = 300


def _mentions_issub(t, _seen=None):
    seen = set() if _seen is None else _seen
    stack = [t]
    while stack:
        x = stack.pop()
        if x.get_id() in seen:
            continue
        seen.add(x.get_id())
        if z3.is_app(x):
            if x.decl().name() == "issub":
                return True
            stack.extend(x.children())
        elif z3.is_quantifier(x):
            stack.append(x.body())
    return False


class Ob:
    """A proof obligation: hyps |- goal."""

    def __init__(self, name, hyps, goal, kind, props=(), fn=None, info=None):
        self.name = name
        self.hyps = list(hyps)
        self.goal = goal
        self.kind = kind
        self.props = list(props)
        self.fn = fn
        self.info = info or {}


class Res:
    __slots__ = ("st", "val", "exc")

    def __init__(self, st, val=None, exc=None):
        self.st = st
        self.val = val
        self.exc = exc


class Outcome:
    __slots__ = ("st", "kind", "val")

    def __init__(self, st, kind, val=None):
        self.st = st
        self.kind = kind      # normal | return | raise | break | continue
        self.val = val


class State:
    def __init__(self):
        self.frames = {}
        self.fid = 0
        self.nfid = 0
        self.heap = {}
        self.heap0 = {}
        self.pc = []
        self.trail = []
        self.writes = []
        self.globals_seen = {}
        self.exc_stack = []
        self.spec = False
        self.entry_frame = None
        self.res = {}           # spec-visible specials: result, exc
        self.held = []          # ghost permissions
        self.depth = 0
        self.yield_handler = None
        self.ncalls = {}
        self.snap = {}

    def copy(self):
        t = State.__new__(State)
        t.frames = {k: dict(v) for k, v in self.frames.items()}
        t.fid = self.fid
        t.nfid = self.nfid
        t.heap = dict(self.heap)
        t.heap0 = self.heap0
        t.pc = list(self.pc)
        t.trail = list(self.trail)
        t.writes = list(self.writes)
        t.globals_seen = dict(self.globals_seen)
        t.exc_stack = list(self.exc_stack)
        t.spec = self.spec
        t.entry_frame = self.entry_frame
        t.res = dict(self.res)
        t.held = list(self.held)
        t.depth = self.depth
        t.yield_handler = self.yield_handler
        t.ncalls = dict(self.ncalls)
        t.snap = dict(self.snap)
        return t

    def assume(self, f):
        self.pc.append(f)

    def new_frame(self, parent=None, module=None):
        self.nfid += 1
        self.frames[self.nfid] = {"$parent": parent, "$module": module}
        return self.nfid

    @property
    def frame(self):
        return self.frames[self.fid]


HEAP_SORTS = {"$seq": z3.ArraySort(I, SeqV), "$dom": z3.ArraySort(I, SetV), "$map": z3.ArraySort(I, MapV),
              "$alloc": I}
GHOST_SORTS = {}    # name -> z3 sort, declared by contracts via ghost()


def ghost(name, sort):
    GHOST_SORTS[name] = {"seq_ev": SeqE, "int": I, "val": Val, "ctxmap": z3.ArraySort(I, Val),
                         "setval": SetV, "refset": z3.ArraySort(I, B), "refint": z3.ArraySort(I, I),
                         "seq_val": SeqV, "mapval": MapV}[sort]


class Engine:
    def __init__(self, frontend=None):
        self.fe = frontend or Frontend()
        self.ct = ClassTable()
        self.n = 0
        self.obs = []
        self.cur = None           # Contract being verified
        self.assumptions = set()
        self.class_index = {}
        self.mutable_globals = set()
        self._index_package()
        self._solver = None
        self.stats = {"paths": 0, "pruned": 0, "implied_queries": 0}
        self.me = z3.Int("me")
        self.base_axioms = None
        self.nlambda = 0

    # ------------------------------------------------------------------ package index
    def _index_package(self):
        import os
        root = os.path.join(self.fe.root, "eliot")
        paths = sorted(set(["eliot/" + f for f in os.listdir(root) if f.endswith(".py")] +
                           [p for p in self.fe.overlay if p.startswith("eliot/") and p.count("/") == 1]))
        for p in paths:
            try:
                m = self.fe.load(p)
            except SyntaxError:
                continue
            for cname, cdef in m.classes.items():
                self.class_index.setdefault(cname, (p, cdef))
        # classes: register in class table with their first base
        for cname, (p, cdef) in list(self.class_index.items()):
            self._register_class(cname)
        # mutable module globals: assigned more than once at module level, or through `mod.name = ...`
        for p in paths:
            try:
                m = self.fe.load(p)
            except SyntaxError:
                continue
            for name, vals in m.assigns.items():
                if len(vals) > 1:
                    self.mutable_globals.add((p, name))
            for node in ast.walk(m.tree):
                tgts = []
                if isinstance(node, ast.Assign):
                    tgts = node.targets
                elif isinstance(node, ast.AugAssign):
                    tgts = [node.target]
                for t in tgts:
                    if isinstance(t, ast.Attribute) and isinstance(t.value, ast.Name):
                        imp = m.imports.get(t.value.id)
                        if imp and imp[0] == "pkg":
                            self.mutable_globals.add((imp[1] + "/" + imp[2] + ".py", t.attr))

    def _register_class(self, cname):
        if self.ct.has(cname):
            return self.ct.id(cname)
        if cname not in self.class_index:
            return self.ct.add(cname, "object")
        p, cdef = self.class_index[cname]
        parent = "object"
        for b in cdef.bases:
            bn = b.id if isinstance(b, ast.Name) else (b.attr if isinstance(b, ast.Attribute) else None)
            if bn:
                if bn in self.class_index and bn != cname:
                    self._register_class(bn)
                if self.ct.has(bn):
                    parent = bn
                    break
        return self.ct.add(cname, parent)

    def axioms(self):
        if self.base_axioms is None:
            ax = self.ct.axioms()
            for name, builder, doc in SP.AXIOMS:
                f = builder(self)
                if isinstance(f, (list, tuple)):
                    ax.extend(f)
                else:
                    ax.append(f)
            self.base_axioms = ax
        return self.base_axioms

    # ------------------------------------------------------------------ helpers
    def fresh(self, prefix, sort):
        self.n += 1
        return z3.Const("%s!%d" % (prefix, self.n), sort)

    def implied(self, st, f):
        """is f implied by the path condition? (quick, incomplete: unknown -> False)"""
        self.stats["implied_queries"] += 1
        return not self._sat(st, z3.Not(f))

    def feasible(self, st, extra=None):
        return self._sat(st, extra)

    def _sat(self, st, extra):
        """False only if pc (+extra) is unsatisfiable. Stage 1: ground solver without the quantified class
        axioms (fast, answers `sat` quickly); stage 2 (only when the class relation is involved): with axioms."""
        s = self.ground_solver()
        s.push()
        try:
            s.add(*st.pc)
            if extra is not None:
                s.add(extra)
            r = s.check()
        finally:
            s.pop()
        if r == z3.unsat:
            return False
        if extra is None or not _mentions_issub(extra):
            if not getattr(st, "cls_sensitive", False):
                return True
        s = self.base_solver()
        s.push()
        try:
            s.add(*st.pc)
            if extra is not None:
                s.add(extra)
            return s.check() != z3.unsat
        finally:
            s.pop()

    def ground_solver(self):
        if getattr(self, "_gsolver", None) is None:
            self._gsolver = z3.Solver()
            self._gsolver.set("timeout", BUDGET_MS)
        return self._gsolver

    def base_solver(self):
        if self._solver is None:
            self._solver = z3.Solver()
            self._solver.set("timeout", BUDGET_MS)
            self._solver.add(*self.axioms())
        return self._solver

    def fork(self, st, cond, label=None):
        """-> [(state, bool)] for the feasible sides of cond"""
        cond = z3.simplify(cond)
        if z3.is_true(cond):
            return [(st, True)]
        if z3.is_false(cond):
            return [(st, False)]
        out = []
        t_ok = self.feasible(st, cond)
        f_ok = self.feasible(st, z3.Not(cond))
        if t_ok and f_ok:
            s2 = st.copy()
            st.assume(cond)
            s2.assume(z3.Not(cond))
            if label:
                st.trail.append(label + ":T")
                s2.trail.append(label + ":F")
            return [(st, True), (s2, False)]
        self.stats["pruned"] += 1
        if t_ok:
            st.assume(cond)
            return [(st, True)]
        if f_ok:
            st.assume(z3.Not(cond))
            return [(st, False)]
        return []

    # ------------------------------------------------------------------ heap
    def harr(self, st, name):
        if name not in st.heap:
            if name in HEAP_SORTS:
                sort = HEAP_SORTS[name]
            elif name.startswith("#"):
                if name[1:] not in GHOST_SORTS:
                    raise SpecError("undeclared ghost component " + name)
                sort = GHOST_SORTS[name[1:]]
            else:
                sort = z3.ArraySort(I, Val)
            c = z3.Const("H0!" + name, sort)
            st.heap[name] = c
            if name not in st.heap0:
                st.heap0[name] = c
        return st.heap[name]

    def hget(self, st, name, ref):
        """read-over-write: skip stores at provably different indices, return the value of a store at the same index"""
        arr = self.harr(st, name)
        if not z3.is_expr(ref):
            return z3.Select(arr, ref)
        cur = arr
        depth = 0
        while depth < 16 and z3.is_app(cur) and cur.decl().kind() == z3.Z3_OP_STORE:
            base, idx, val = cur.arg(0), z3.simplify(cur.arg(1)), cur.arg(2)
            if z3.eq(idx, ref):
                return val
            d = z3.simplify(idx != ref)
            if z3.is_true(d) or (self.fresh_term(idx) and self.entry_term(ref, 0)) or (self.fresh_term(ref) and self.entry_term(idx, 0)):
                cur = base
                depth += 1
                continue
            break
        return z3.Select(cur, ref)

    def hset(self, st, name, ref, val):
        if st.spec:
            raise SpecError("heap write in spec mode")
        st.heap[name] = z3.Store(self.harr(st, name), ref, val)
        st.writes.append((name, ref))

    def wf_assume(self, st, private=()):
        """language-level heap invariants (E11): no cell of the declared reference-holding attributes points past the
        allocation frontier; freshly built **kwargs dicts are referenced by no such cell"""
        a = self.harr(st, "$alloc")
        r = z3.Int("r!wf")
        for comp in SP.WF_FIELDS:
            arr = self.harr(st, comp)
            cell = z3.Select(arr, r)
            # only cells of objects that exist now: cells of objects allocated later live in the same array
            st.assume(z3.ForAll([r], z3.Implies(z3.And(r <= a, Val.is_RefV(cell)), Val.rv(cell) <= a), patterns=[cell]))
            for p in private:
                st.assume(z3.ForAll([r], z3.Implies(r <= a, cell != Val.RefV(p)), patterns=[cell]))
        if "CTX" in GHOST_SORTS:
            cell = z3.Select(self.harr(st, "#CTX"), r)
            st.assume(z3.ForAll([r], z3.Implies(Val.is_RefV(cell), Val.rv(cell) <= a), patterns=[cell]))
            for p in private:
                st.assume(z3.ForAll([r], cell != Val.RefV(p), patterns=[cell]))

    def alloc(self, st, clsname=None):
        a = self.harr(st, "$alloc")
        r = a + 1
        st.heap["$alloc"] = r
        if clsname is not None:
            st.assume(clsof(r) == self.ct.id(clsname) if self.ct.has(clsname) else clsof(r) == self._register_class(clsname))
        return r

    def new_list(self, st, seq, elem=None):
        r = self.alloc(st, "list")
        st.heap["$seq"] = z3.Store(self.harr(st, "$seq"), r, seq)
        return SV("list", r, h=elem)

    def new_tuple_obj(self, st, seq):
        r = self.alloc(st, "tuple")
        st.heap["$seq"] = z3.Store(self.harr(st, "$seq"), r, seq)
        return SV("list", r, h=None, x="tuple")

    def new_dict(self, st, dom=None, mp=None, h=None):
        r = self.alloc(st, "dict")
        st.heap["$dom"] = z3.Store(self.harr(st, "$dom"), r, dom if dom is not None else z3.K(Val, z3.BoolVal(False)))
        st.heap["$map"] = z3.Store(self.harr(st, "$map"), r, mp if mp is not None else z3.K(Val, NoneV))
        return SV("dict", r, h=h)

    def seq_of(self, st, lst):
        return self.hget(st, "$seq", lst.t)

    def dom_of(self, st, d):
        return self.hget(st, "$dom", d.t)

    def map_of(self, st, d):
        return self.hget(st, "$map", d.t)

    def set_seq(self, st, lst, seq):
        self.hset(st, "$seq", lst.t, seq)

    # ------------------------------------------------------------------ type hints
    def from_val(self, st, v, hint):
        """z3 Val term + hint -> SV (adds the type assumption the hint stands for)"""
        if hint in (None, "Any", "val"):
            return SV("val", v)
        if hint.startswith("Opt["):
            # declared optional type: the value is None or a well-typed inner value
            inner = hint[4:-1]
            s2 = State()
            s2.heap = st.heap
            s2.heap0 = st.heap0
            self.from_val(s2, v, inner)
            st.assume(z3.Or(v == NoneV, z3.And(*s2.pc) if s2.pc else z3.BoolVal(True)))
            st.heap = s2.heap
            return SV("val", v, h=hint)
        if hint == "int":
            st.assume(Val.is_IntV(v))
            return SV("int", Val.iv(v))
        if hint == "bool":
            st.assume(Val.is_BoolV(v))
            return SV("bool", Val.bv(v))
        if hint == "str":
            st.assume(Val.is_StrV(v))
            return SV("str", Val.sv(v))
        if hint == "bytes":
            st.assume(Val.is_BytesV(v))
            return SV("bytes", Val.yv(v))
        if hint == "float":
            st.assume(Val.is_FloatV(v))
            return SV("float", Val.fv(v))
        if hint == "none":
            st.assume(v == NoneV)
            return SV("none")
        if hint == "cls":
            st.assume(Val.is_ClsV(v))
            return SV("cls", Val.cv(v))
        st.assume(Val.is_RefV(v))
        r = Val.rv(v)
        if "|" in hint and "[" not in hint:
            # union of exact repo classes: the value stays dynamic, attribute access forks on the class
            st.assume(r >= 1)
            st.assume(r <= self.alloc_bound(st, r))
            st.assume(z3.Or(*[clsof(r) == self._register_class(c) for c in hint.split("|")]))
            return SV("val", v, h=hint)
        return self.from_ref(st, r, hint)

    def alloc_bound(self, st, r):
        """the allocation frontier that bounds reference r: the entry frontier when r was read from a heap cell that
        has not been written since entry (so the referenced object already existed then), the current one otherwise"""
        if "$alloc" in st.heap0 and self.entry_term(r, 0):
            return st.heap0["$alloc"]
        return self.harr(st, "$alloc")

    def entry_term(self, t, depth):
        """is t a reference that provably existed at function entry?  (a parameter / module singleton symbol, or read from an
        entry-heap cell H0!f[...] of such a reference, recursively).  Cells of objects allocated later by callees live in the
        same H0 arrays (the callee's frame does not mention them), so the index must itself be an entry reference."""
        if depth > 6:
            return False
        if z3.is_app(t) and t.decl().name() == "rv" and t.num_args() == 1:
            t = t.arg(0)
            if z3.is_app(t) and t.decl().kind() == z3.Z3_OP_SEQ_NTH:
                t = t.arg(0)          # an element of an entry list/dict is an entry reference
            if z3.is_app(t) and t.decl().kind() == z3.Z3_OP_SELECT and z3.is_app(t.arg(0)) and t.arg(0).decl().kind() == z3.Z3_OP_SELECT:
                t = t.arg(0)          # $map[d][k]
            if z3.is_app(t) and t.decl().kind() == z3.Z3_OP_SELECT:
                base, idx = t.arg(0), t.arg(1)
                return z3.is_const(base) and base.decl().name().startswith("H0!") and self.entry_term(idx, depth + 1)
            return z3.is_const(t) and self.is_entry_symbol(t)
        return z3.is_const(t) and self.is_entry_symbol(t)

    def fresh_term(self, t):
        """a reference allocated after function entry: <allocation frontier> + k with k >= 1"""
        t = z3.simplify(t)
        if z3.is_app(t) and t.decl().kind() == z3.Z3_OP_ADD:
            ks = [a for a in t.children() if z3.is_int_value(a)]
            bases = [a for a in t.children() if not z3.is_int_value(a)]
            if len(bases) == 1 and z3.is_const(bases[0]) and sum(k.as_long() for k in ks) >= 1:
                nm = bases[0].decl().name()
                return nm == "H0!$alloc" or nm.startswith("alloc!")
        return False

    def is_entry_symbol(self, t):
        return t.decl().name() in getattr(self, "entry_symbols", ())

    def from_ref(self, st, r, hint):
        st.assume(r >= 1)
        st.assume(r <= self.alloc_bound(st, r))
        if hint == "list" or hint.startswith("list["):
            st.assume(clsof(r) == self.ct.id("list"))
            return SV("list", r, h=(hint[5:-1] if hint.startswith("list[") else None))
        if hint == "tuple" or hint.startswith("tuple["):
            st.assume(clsof(r) == self.ct.id("tuple"))
            return SV("list", r, h=(hint[6:-1] if hint.startswith("tuple[") else None), x="tuple")
        if hint == "dict" or hint.startswith("dict["):
            st.assume(clsof(r) == self.ct.id("dict"))
            inner = hint[5:-1] if hint.startswith("dict[") else None
            if inner and "=" in inner:
                # typed-dict hint: the listed keys are present (declared shape of the dictionaries stored there)
                for part in inner.split(";"):
                    kname = part.split("=", 1)[0]
                    if kname != "*" and not kname.endswith("?"):
                        st.assume(z3.Select(self.hget(st, "$dom", r), Val.StrV(z3.StringVal(kname))))
            return SV("dict", r, h=inner)
        if hint in ("pmap", "pset") or hint.startswith("pmap["):
            # persistent map / set (pyrsistent): an immutable dictionary object (see pyrx.py)
            st.assume(clsof(r) == self.ct.id("dict"))
            inner = hint[5:-1] if hint.startswith("pmap[") else None
            if inner and "=" in inner:
                for part in inner.split(";"):
                    kname = part.split("=", 1)[0]
                    if kname != "*" and not kname.endswith("?"):
                        st.assume(z3.Select(self.hget(st, "$dom", r), Val.StrV(z3.StringVal(kname))))
            return SV("dict", r, h=inner, x="pmap")
        if hint.startswith("role:"):
            return SV("obj", r, h=hint[5:])
        if hint == "Exc":
            st.assume(issub(clsof(r), self.ct.id("BaseException")))
            return SV("inst", r, h="BaseException", x="exc")
        if hint.startswith("sub:"):
            # instance of some subclass of the named class
            cname = hint[4:]
            st.assume(issub(clsof(r), self._register_class(cname)))
            return SV("inst", r, h=cname, x="sub")
        # exact class instance
        st.assume(clsof(r) == self._register_class(hint))
        return SV("inst", r, h=hint)

    def sym(self, st, name, hint):
        """fresh symbolic input of the hinted type"""
        if isinstance(hint, str) and "|" in hint and "[" not in hint:
            return self.from_val(st, self.fresh(name, Val), hint)
        if isinstance(hint, (tuple, list)):
            # a tuple display of known length (e.g. `return [task], parser`)
            return SV("tuple", None, x=[self.sym(st, "%s_%d" % (name, i), h) for i, h in enumerate(hint)])
        if hint in (None, "Any", "val") or hint.startswith("Opt["):
            v = self.fresh(name, Val)
            if hint and hint.startswith("Opt["):
                # an Opt value is None or a well-typed inner value
                inner = hint[4:-1]
                s2 = State()
                s2.heap = st.heap
                s2.heap0 = st.heap0
                iv = self.from_val(s2, v, inner)
                st.assume(z3.Or(v == NoneV, z3.And(*s2.pc) if s2.pc else z3.BoolVal(True)))
                st.heap = s2.heap
            return SV("val", v, h=hint if hint not in ("Any", "val") else None)
        if hint == "int":
            return SV("int", self.fresh(name, I))
        if hint == "bool":
            return SV("bool", self.fresh(name, B))
        if hint == "str":
            return SV("str", self.fresh(name, S))
        if hint == "bytes":
            return SV("bytes", self.fresh(name, S))
        if hint == "float":
            return SV("float", self.fresh(name, I))
        if hint == "none":
            return SV("none")
        if hint == "cls":
            return SV("cls", self.fresh(name, I))
        if hint == "seqe":
            return SV("seqe", self.fresh(name, SeqE))
        if hint == "ev":
            return SV("ev", self.fresh(name, Ev))
        if hint == "seq":
            return SV("seq", self.fresh(name, SeqV))
        r = self.fresh(name, I)
        return self.from_ref(st, r, hint)

    def field_hint(self, clsname, attr):
        seen = set()
        while clsname and clsname not in seen:
            seen.add(clsname)
            h = SP.FIELDS.get(clsname, {}).get(attr)
            if h is not None:
                return h
            clsname = self.ct.parent.get(clsname)
        return None

    def concretize(self, st, v):
        """turn a boxed value into a typed one when its hint / the path condition allows"""
        if v.k != "val":
            return v
        h = v.h
        if h and h.startswith("Opt["):
            if self.implied(st, v.t != NoneV):
                return self.from_val(st, v.t, h[4:-1])
            if self.implied(st, v.t == NoneV):
                return SV("none")
            return v
        if h and "|" in h and "[" not in h:
            for c in h.split("|"):
                if self.implied(st, clsof(Val.rv(v.t)) == self._register_class(c)):
                    return SV("inst", Val.rv(v.t), h=c)
            return v
        if h:
            return self.from_val(st, v.t, h)
        t = z3.simplify(v.t)
        if z3.is_app(t) and t.decl().kind() == z3.Z3_OP_DT_CONSTRUCTOR:
            nm = t.decl().name()
            if nm == "NoneV":
                return SV("none")
            if nm == "IntV":
                return SV("int", t.arg(0))
            if nm == "StrV":
                return SV("str", t.arg(0))
            if nm == "BoolV":
                return SV("bool", t.arg(0))
            if nm == "BytesV":
                return SV("bytes", t.arg(0))
            if nm == "FloatV":
                return SV("float", t.arg(0))
            if nm == "ClsV":
                return SV("cls", t.arg(0))
        return v

    # ------------------------------------------------------------------ truthiness, equality
    def truth(self, st, v):
        k = v.k
        if k == "bool":
            return v.t
        if k == "none":
            return z3.BoolVal(False)
        if k == "int":
            return v.t != 0
        if k in ("str", "bytes"):
            return z3.Length(v.t) > 0
        if k == "list":
            return z3.Length(self.seq_of(st, v)) > 0
        if k == "seq":
            return z3.Length(v.t) > 0
        if k == "dict":
            return self.dom_of(st, v) != z3.K(Val, z3.BoolVal(False))
        if k == "tuple":
            return z3.BoolVal(len(v.x) > 0)
        if k == "sset":
            return v.t != z3.K(Val, z3.BoolVal(False))
        if k == "cset":
            return z3.BoolVal(len(v.x) > 0)
        if k in ("inst", "obj", "func", "bound", "cls", "builtin", "ext", "ctxvar", "module"):
            if k == "inst" and v.h and self.class_has_method(v.h, ("__bool__", "__len__")):
                raise Unsupported("truthiness of %s instance with __bool__/__len__" % v.h)
            return z3.BoolVal(True)
        if k == "float":
            raise Unsupported("truthiness of float")
        if k == "val":
            c = self.concretize(st, v)
            if c.k != "val":
                return self.truth(st, c)
            h = v.h
            if h and h.startswith("Opt["):
                inner = h[4:-1]
                s2 = st.copy()
                iv = self.from_val(s2, v.t, inner)
                st.heap = s2.heap
                return z3.And(v.t != NoneV, self.truth(s2, iv))
            t = v.t
            return z3.And(t != NoneV, z3.Implies(Val.is_BoolV(t), Val.bv(t)), z3.Implies(Val.is_IntV(t), Val.iv(t) != 0),
                          z3.Implies(Val.is_StrV(t), z3.Length(Val.sv(t)) > 0),
                          z3.Implies(Val.is_BytesV(t), z3.Length(Val.yv(t)) > 0),
                          z3.Implies(Val.is_RefV(t), self.ref_truth(st, Val.rv(t))))
        raise Unsupported("truthiness of " + k)

    def ref_truth(self, st, r):
        c = clsof(r)
        return z3.And(z3.Implies(z3.Or(c == self.ct.id("list"), c == self.ct.id("tuple")), z3.Length(self.hget(st, "$seq", r)) > 0),
                      z3.Implies(c == self.ct.id("dict"), self.hget(st, "$dom", r) != z3.K(Val, z3.BoolVal(False))))

    def class_has_method(self, cname, names):
        for c in self.repo_mro(cname):
            p, cdef = self.class_index[c]
            for n in cdef.body:
                if isinstance(n, ast.FunctionDef) and n.name in names:
                    return True
        return False

    def repo_mro(self, cname):
        out = []
        while cname in self.class_index and cname not in out:
            out.append(cname)
            cname = self.ct.parent.get(cname)
        return out

    def eq(self, st, a, b):
        """z3 Bool for Python `a == b` (see DESIGN 3.1: == on boxed values is value identity; lists compare
        by content one level deep)"""
        a = self.concretize(st, a)
        b = self.concretize(st, b)
        if a.k == "tuple" and b.k == "tuple":
            if len(a.x) != len(b.x):
                return z3.BoolVal(False)
            return z3.And(*[self.eq(st, x, y) for x, y in zip(a.x, b.x)]) if a.x else z3.BoolVal(True)
        if (a.k == "tuple") != (b.k == "tuple"):
            tup, other = (a, b) if a.k == "tuple" else (b, a)
            if other.k in ("val", "list"):
                # a tuple display equals a dynamic value iff that value is a tuple object with equal elements
                ov = box(other)
                r = Val.rv(ov)
                items = [box(x) if x.k != "tuple" else None for x in tup.x]
                if all(i is not None for i in items):
                    sq = z3.Empty(SeqV)
                    if items:
                        units = [z3.Unit(i) for i in items]
                        sq = units[0] if len(units) == 1 else z3.Concat(*units)
                    return z3.And(Val.is_RefV(ov), clsof(r) == self.ct.id("tuple"), self.hget(st, "$seq", r) == sq)
            return z3.BoolVal(False)
        if a.k == "list" and b.k == "list":
            return self.seq_of(st, a) == self.seq_of(st, b)
        if a.k in ("list", "seq") and b.k in ("list", "seq"):
            sa = a.t if a.k == "seq" else self.seq_of(st, a)
            sb = b.t if b.k == "seq" else self.seq_of(st, b)
            return sa == sb
        if a.k == "dict" and b.k == "dict":
            return self.dict_eq(self.dom_of(st, a), self.map_of(st, a), self.dom_of(st, b), self.map_of(st, b))
        if a.k in ("sset", "cset") or b.k in ("sset", "cset"):
            return self.as_sset(st, a) == self.as_sset(st, b)
        if a.k == "ev" and b.k == "ev":
            return a.t == b.t
        if a.k == "garr" and b.k == "garr":
            return a.t == b.t
        if a.k == "seqe" and b.k == "seqe":
            return a.t == b.t
        if a.k == "sdict" or b.k == "sdict":
            da, ma = self.as_sdict(st, a)
            db, mb = self.as_sdict(st, b)
            return self.dict_eq(da, ma, db, mb)
        if a.k == "inst" and b.k == "inst" and a.h == "TaskLevel" and b.h == "TaskLevel":
            # TaskLevel.__eq__ (verified separately against its contract): same class, equal levels
            la = self.from_val(st, self.hget(st, "_level", a.t), "list")
            lb = self.from_val(st, self.hget(st, "_level", b.t), "list")
            return self.seq_of(st, la) == self.seq_of(st, lb)
        for x, y in ((a, b), (b, a)):
            if x.k == "val" and x.h == "Opt[TaskLevel]" and y.k == "inst" and y.h == "TaskLevel":
                # None == TaskLevel is False (TaskLevel.__eq__ compares classes first); otherwise by level
                lx = self.hget(st, "$seq", Val.rv(self.hget(st, "_level", Val.rv(x.t))))
                ly = self.hget(st, "$seq", Val.rv(self.hget(st, "_level", y.t)))
                return z3.And(x.t != NoneV, lx == ly)
        if a.k == b.k and a.k in ("int", "bool", "str", "bytes", "float", "cls"):
            return a.t == b.t
        if a.k == "none" and b.k == "none":
            return z3.BoolVal(True)
        if a.k in ("func", "bound", "builtin", "ext", "module") or b.k in ("func", "bound", "builtin", "ext", "module"):
            if a.k == b.k and a.t is b.t:
                return z3.BoolVal(True)
            raise Unsupported("equality on function values")
        if a.k == "int" and b.k == "bool" or a.k == "bool" and b.k == "int":
            ai = a.t if a.k == "int" else z3.If(a.t, 1, 0)
            bi = b.t if b.k == "int" else z3.If(b.t, 1, 0)
            return ai == bi
        return box(a) == box(b)

    def ite_map(self, c, a, b):
        """pointwise If over arrays (combinatory array logic: decidable, no lambdas)"""
        x, y = z3.Consts("ite!x ite!y", Val)
        decl = z3.If(z3.Bool("ite!b"), x, y).decl()
        return z3.Map(decl, c, a, b)

    def dict_eq(self, d1, m1, d2, m2):
        none = z3.K(Val, NoneV)
        return z3.And(d1 == d2, self.ite_map(d1, m1, none) == self.ite_map(d2, m2, none))

    def as_sdict(self, st, v):
        if v.k == "sdict":
            return v.t
        if v.k == "dict":
            return (self.dom_of(st, v), self.map_of(st, v))
        raise Unsupported("not a dict: " + v.k)

    def same(self, st, a, b):
        """z3 Bool for `a is b`"""
        if a.k == "none" and b.k == "none":
            return z3.BoolVal(True)
        if a.k in ("func", "bound", "builtin", "ext", "module") or b.k in ("func", "bound", "builtin", "ext", "module"):
            if a.k == b.k and a.t is b.t and a.k != "bound":
                return z3.BoolVal(True)
            if a.k in ("val", "obj") or b.k in ("val", "obj"):
                return z3.BoolVal(False)
            return z3.BoolVal(a.k == b.k and a.t is b.t)
        if a.k == "tuple" or b.k == "tuple":
            raise Unsupported("identity of tuples")
        return box(a) == box(b)
