"""Generators as reactive loops (DESIGN 3.5)."""
from .sorts import Unsupported


class GenMixin:
    def exec_generator(self, fn, st, c):
        raise Unsupported("generator functions are not yet supported")
