"""Generator functions as reactive loops (DESIGN 3.5).

Verifying a generator function: its body is executed symbolically; at every `v = yield e`
  1. the contract's at_yield clauses are proof obligations (what has been handed out, in which state);
  2. the driver is arbitrary code: everything it can reach is havocked (interface `Driver`), the generator's own locals and the
     objects the contract names as private stay;
  3. the path forks: resumed by send(x) for an arbitrary x (recorded in the ghost local `_sent`), or by throw(e) for an arbitrary
     exception object of any class, GeneratorExit included (recorded in `_thrown`); a generator that is never resumed has no further obligations.
`return e` of the generator is the normal exit (StopIteration(e) at the consumer) and is checked against `ensures`."""
import z3

from .sorts import Val, SV, Unsupported, clsof, issub, I
from . import spec as SP
from .engine import Res


class GenMixin:
    def exec_generator(self, fn, st, c):
        fid = st.fid
        st.frames[fid]["_sent"] = SV("none")
        st.frames[fid]["_thrown"] = SV("none")
        st.frames[fid]["_nyield"] = SV("int", z3.IntVal(0))
        st.frames[fid]["_ctx_at_resume"] = SV("val", self.ctx_cell(st))

        def handler(s, val):
            s.fid = fid
            for label, src, props in c.at_yield:
                from .loopx import split_conj
                for sub, ssrc in split_conj(src):
                    g = self.spec_eval(s, ssrc, fid, s.heap0, s.entry_frame, {"yielded": val})
                    self.emit(s, "yield:" + label + sub, g, "post", props)
            # ghost code at the yield (a log of what has been handed out), see `ghost_yield=` of the contract
            for gname, gsrc in c.extra.get("ghost_yield", []):
                s.frames[self.root_fid][gname] = self.spec_value(s, gsrc, fid, s.heap0, s.entry_frame, {"yielded": val})
            saved_handler = s.yield_handler
            s.yield_handler = None
            role = c.extra.get("driver_role", "Driver")
            drv = SV("obj", self.alloc(s, "function"), h=role)
            out = []
            for r in self.call_opaque(s, drv, role, "", [], {}, None, None):
                r.st.yield_handler = saved_handler
                r.st.frames[fid]["_ctx_at_resume"] = SV("val", self.ctx_cell(r.st))
                n = r.st.frames[fid]["_nyield"]
                r.st.frames[fid]["_nyield"] = SV("int", n.t + 1)
                if r.exc is not None:
                    r.st.frames[fid]["_thrown"] = r.exc
                    r.st.trail.append("resume:throw")
                    out.append(r)
                else:
                    r.st.frames[fid]["_sent"] = r.val
                    r.st.trail.append("resume:send")
                    out.append(Res(r.st, r.val))
            return out
        st.yield_handler = handler
        return self.exec_block(fn.body, st)
