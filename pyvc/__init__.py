"""pyvc: verification-condition generator for the real sources of /repo (see /verif/DESIGN.md)."""
from .engine import Engine, Ob, State, ghost
from .evalx import EvalMixin
from .callx import CallMixin
from .stmtx import StmtMixin
from .loopx import LoopMixin
from .models import ModelMixin
from .libx import LibMixin
from .genx import GenMixin
from .pyrx import PyrMixin
from .sorts import Unsupported, SpecError

ENGINE_VERSION = "1"


class Verifier(PyrMixin, EvalMixin, CallMixin, StmtMixin, LoopMixin, ModelMixin, LibMixin, GenMixin, Engine):
    pass
