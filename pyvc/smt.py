"""Discharging obligations: z3 (API) first, the SMT-LIB dump to cvc5 / z3 4.8.12 for what z3 leaves open.
Each batch runs in a worker process under a hard wall-clock kill (z3's own timeout is not honoured
inside its sequence solver, DESIGN 14.1)."""
import os
import subprocess
import tempfile
import time
import z3

Z3_MS = int(os.environ.get("PYVC_Z3_MS", "20000"))


_SOLVERS = {}


def solver_for(axioms, timeout_ms):
    key = id(axioms)
    if key not in _SOLVERS:
        s = z3.Solver()
        s.add(*axioms)
        _SOLVERS[key] = s
    s = _SOLVERS[key]
    s.set("timeout", timeout_ms)
    return s


def check(ob, axioms, timeout_ms=None):
    """-> (verdict, backend, ms, model-or-reason). hyps of the obligation = axioms + ob.hyps"""
    t0 = time.time()
    s = solver_for(axioms, timeout_ms or Z3_MS)
    s.push()
    try:
        s.add(*ob.hyps)
        s.add(z3.Not(ob.goal))
        r = s.check()
        ms = int(1000 * (time.time() - t0))
        if r == z3.unsat:
            return "proved", "z3-5.1", ms, None
        if r == z3.sat:
            m = s.model()
            return "refuted", "z3-5.1", ms, model_text(m)
        reason = s.reason_unknown()
        if os.environ.get("PYVC_NO_EXTERNAL"):
            return "undecided", "z3-5.1", ms, "unknown: " + reason
        s2 = z3.Solver()
        s2.add(*s.assertions())
    finally:
        s.pop()
    s = s2
    # second back end on the SMT-LIB dump
    v2 = external(s, "cvc5")
    if v2 is not None and v2[0] == "proved":
        return "proved", "cvc5-1.0.3", ms + v2[1], None
    v3 = external(s, "z3old")
    if v3 is not None and v3[0] == "proved":
        return "proved", "z3-4.8.12", ms + v3[1], None
    return "undecided", "z3-5.1", ms, "unknown: " + reason


def model_text(m, limit=60):
    out = []
    for d in list(m.decls())[:limit]:
        try:
            out.append("%s = %s" % (d.name(), m[d]))
        except Exception:
            pass
    return "\n".join(out)


def external(solver, which, timeout_s=20):
    try:
        smt = "(set-logic ALL)\n" + solver.to_smt2()
    except Exception:
        return None
    with tempfile.NamedTemporaryFile("w", suffix=".smt2", delete=False) as f:
        f.write(smt)
        path = f.name
    try:
        cmd = (["/usr/bin/cvc5", "--strings-exp", "--tlimit=%d" % (timeout_s * 1000), path] if which == "cvc5"
               else ["/usr/bin/z3", "-T:%d" % timeout_s, path])
        t0 = time.time()
        try:
            p = subprocess.run(cmd, capture_output=True, text=True, timeout=timeout_s + 5)
        except subprocess.TimeoutExpired:
            return None
        ms = int(1000 * (time.time() - t0))
        out = p.stdout.strip().splitlines()
        if out and out[0].strip() == "unsat":
            return ("proved", ms)
        if out and out[0].strip() == "sat":
            return ("refuted", ms)
        return None
    finally:
        os.unlink(path)
