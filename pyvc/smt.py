"""Discharging obligations: z3 (API) first, the SMT-LIB dump to cvc5 / z3 4.8.12 for what z3 leaves open.
Each batch runs in a worker process under a hard wall-clock kill (z3's own timeout is not honoured
inside its sequence solver, DESIGN 14.1)."""
import os
import subprocess
import tempfile
import time
import z3

Z3_MS = int(os.environ.get("PYVC_Z3_MS", "20000"))


_SOLVERS = {}


def solver_for(axioms, timeout_ms):
    key = id(axioms)
    if key not in _SOLVERS:
        s = z3.Solver()
        s.add(*axioms)
        _SOLVERS[key] = s
    s = _SOLVERS[key]
    s.set("timeout", timeout_ms)
    return s


def cross_check(ob, axioms, timeout_s=10):
    """thorough tier: the full query of an obligation z3 5.1 proved, put to the two other installed solvers through the SMT-LIB dump.
    -> {"cvc5": "unsat"|"sat"|"unknown", "z3-4.8.12": ...}; `sat` from either is a disagreement the check reports as checker-unhealthy."""
    s2 = z3.Solver()
    s2.add(*axioms)
    s2.add(*ob.hyps)
    s2.add(z3.Not(ob.goal))
    out = {}
    for which, label in (("cvc5", "cvc5-1.0.3"), ("z3old", "z3-4.8.12")):
        r = external(s2, which, timeout_s)
        out[label] = "unknown" if r is None else ("unsat" if r[0] == "proved" else "sat")
    return out


def check(ob, axioms, timeout_ms=None):
    """-> (verdict, backend, ms, model-or-reason). hyps of the obligation = axioms + ob.hyps.
    1. ground pass: quantified hypotheses dropped (weaker hypotheses: `unsat` is a proof; `sat` gives a candidate model)
    2. full pass with quantified hypotheses (z3, then cvc5 / z3-4.8.12 on the SMT-LIB dump)
    3. still open and a candidate model exists -> refuted(candidate) -- to be replayed natively (DESIGN section 7)"""
    t0 = time.time()
    tmo = timeout_ms or Z3_MS
    candidate = None
    g = z3.Solver()
    g.set("timeout", tmo)
    ground = [h for h in ob.hyps if not has_quantifier(h)]
    gax = ground_axioms(axioms)
    g.add(*gax)
    g.add(*ground)
    g.add(z3.Not(ob.goal))
    goal_q = has_quantifier(ob.goal)
    r1 = g.check()
    if r1 == z3.unsat:
        return "proved", "z3-5.1", int(1000 * (time.time() - t0)), None
    if r1 == z3.sat and not goal_q:
        candidate = model_text(g.model())
        if len(ground) == len(ob.hyps) and len(gax) == len(axioms):
            return "refuted", "z3-5.1", int(1000 * (time.time() - t0)), candidate
    s = solver_for(axioms, tmo)
    s.push()
    try:
        s.add(*ob.hyps)
        s.add(z3.Not(ob.goal))
        r = s.check()
        ms = int(1000 * (time.time() - t0))
        if r == z3.unsat:
            return "proved", "z3-5.1", ms, None
        if r == z3.sat:
            return "refuted", "z3-5.1", ms, model_text(s.model())
        reason = s.reason_unknown()
        s2 = z3.Solver()
        s2.add(*s.assertions())
    finally:
        s.pop()
    if not os.environ.get("PYVC_NO_EXTERNAL"):
        v2 = external(s2, "cvc5")
        if v2 is not None and v2[0] == "proved":
            return "proved", "cvc5-1.0.3", ms + v2[1], None
        v3 = external(s2, "z3old")
        if v3 is not None and v3[0] == "proved":
            return "proved", "z3-4.8.12", ms + v3[1], None
    ms = int(1000 * (time.time() - t0))
    if candidate is not None:
        return "refuted", "z3-5.1(candidate: quantified hypotheses dropped)", ms, candidate
    return "undecided", "z3-5.1", ms, "unknown: " + reason


_GAX = {}


def ground_axioms(axioms):
    key = id(axioms)
    if key not in _GAX:
        _GAX[key] = [a for a in axioms if not has_quantifier(a)]
    return _GAX[key]


def has_quantifier(t):
    seen = set()
    stack = [t]
    while stack:
        x = stack.pop()
        if x.get_id() in seen:
            continue
        seen.add(x.get_id())
        if z3.is_quantifier(x):
            if not x.is_lambda():
                return True
            stack.append(x.body())
        if z3.is_app(x):
            stack.extend(x.children())
    return False


def model_text(m, limit=60):
    out = []
    for d in list(m.decls())[:limit]:
        try:
            out.append("%s = %s" % (d.name(), m[d]))
        except Exception:
            pass
    return "\n".join(out)


def external(solver, which, timeout_s=20):
    try:
        smt = "(set-logic ALL)\n" + solver.to_smt2()
    except Exception:
        return None
    with tempfile.NamedTemporaryFile("w", suffix=".smt2", delete=False) as f:
        f.write(smt)
        path = f.name
    try:
        cmd = (["/usr/bin/cvc5", "--strings-exp", "--tlimit=%d" % (timeout_s * 1000), path] if which == "cvc5"
               else ["/usr/bin/z3", "-T:%d" % timeout_s, path])
        t0 = time.time()
        try:
            p = subprocess.run(cmd, capture_output=True, text=True, timeout=timeout_s + 5)
        except subprocess.TimeoutExpired:
            return None
        ms = int(1000 * (time.time() - t0))
        out = p.stdout.strip().splitlines()
        if out and out[0].strip() == "unsat":
            return ("proved", ms)
        if out and out[0].strip() == "sat":
            return ("refuted", ms)
        return None
    finally:
        os.unlink(path)
