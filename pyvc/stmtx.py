"""Statements, loops (cut points with invariants), try/with, and verification of a function against its contract."""
import ast
import z3

from .sorts import (Val, Ev, SeqV, SeqE, SetV, MapV, I, B, S, clsof, issub, SV, REFKINDS, box, Unsupported, SpecError)
from . import spec as SP
from .engine import Res, State, NoneV, Ob, Outcome
from .frontend import loops_of


class StmtMixin:
    # ------------------------------------------------------------------ blocks
    def exec_block(self, body, st):
        outs = [Outcome(st, "normal")]
        for stmt in body:
            nxt = []
            for o in outs:
                if o.kind != "normal":
                    nxt.append(o)
                else:
                    nxt.extend(self.exec_stmt(stmt, o.st))
            outs = nxt
            if len(outs) > 400:
                raise Unsupported("path explosion (>400 paths)")
        return outs

    def exec_stmt(self, s, st):
        m = getattr(self, "ex_" + type(s).__name__, None)
        if m is None:
            raise Unsupported("statement " + type(s).__name__)
        return m(s, st)

    def lift(self, rs, k):
        """[Res] -> [Outcome]: exceptions become raise outcomes, values go to k(st, val) -> [Outcome]"""
        out = []
        for r in rs:
            if r.exc is not None:
                out.append(Outcome(r.st, "raise", r.exc))
            else:
                out.extend(k(r.st, r.val))
        return out

    def ex_Pass(self, s, st):
        return [Outcome(st, "normal")]

    def ex_Expr(self, s, st):
        if isinstance(s.value, ast.Constant):
            return [Outcome(st, "normal")]
        if isinstance(s.value, ast.Yield):
            return self.lift(self.ev_Yield(s.value, st), lambda s2, v: [Outcome(s2, "normal")])
        return self.lift(self.ev(s.value, st), lambda s2, v: [Outcome(s2, "normal")])

    def ex_Return(self, s, st):
        if s.value is None:
            return [Outcome(st, "return", SV("none"))]
        return self.lift(self.ev(s.value, st), lambda s2, v: [Outcome(s2, "return", v)])

    def ex_Break(self, s, st):
        return [Outcome(st, "break")]

    def ex_Continue(self, s, st):
        return [Outcome(st, "continue")]

    def ex_Global(self, s, st):
        raise Unsupported("global statement")

    def ex_Nonlocal(self, s, st):
        for n in s.names:
            st.frame.setdefault("$nonlocal", set())
            st.frame["$nonlocal"] = set(st.frame["$nonlocal"]) | {n}
        return [Outcome(st, "normal")]

    def ex_Import(self, s, st):
        for a in s.names:
            st.frame[(a.asname or a.name).split(".")[0]] = SV("ext", a.name)
        return [Outcome(st, "normal")]

    def ex_ImportFrom(self, s, st):
        import os
        path = self.modpath(st)
        for a in s.names:
            nm = a.asname or a.name
            if s.level > 0:
                base = os.path.dirname(path)
                for _ in range(s.level - 1):
                    base = os.path.dirname(base)
                if s.module:
                    target = os.path.join(base, s.module.replace(".", "/") + ".py")
                    st.frame[nm] = self.module_global(st, target, a.name)
                else:
                    cand = base + "/" + a.name + ".py"
                    st.frame[nm] = SV("module", cand) if self.fe.exists(cand) else self.module_global(st, base + "/__init__.py", a.name)
            else:
                st.frame[nm] = SV("ext", s.module + "." + a.name)
        return [Outcome(st, "normal")]

    def ex_FunctionDef(self, s, st):
        f = SV("func", s, x={"module": self.modpath(st), "env": st.fid, "cls": None,
                             "qual": (self.cur_qual(st) + "." + s.name)})
        st.frame[s.name] = f
        return [Outcome(st, "normal")]

    def cur_qual(self, st):
        return st.frame.get("$qual") or (self.cur.qualname if self.cur else "?")

    def ex_Assert(self, s, st):
        out = []
        for r in self.ev(s.test, st):
            if r.exc is not None:
                out.append(Outcome(r.st, "raise", r.exc))
                continue
            for s2, b in self.fork(r.st, self.truth(r.st, r.val)):
                if b:
                    out.append(Outcome(s2, "normal"))
                else:
                    out.append(Outcome(s2, "raise", self.raise_new(s2, "AssertionError").exc))
        return out

    def ex_Raise(self, s, st):
        if s.exc is None:
            if not st.exc_stack:
                raise Unsupported("bare raise outside handler")
            return [Outcome(st, "raise", st.exc_stack[-1])]

        def k(s2, v):
            v = self.concretize(s2, v)
            if v.k == "cls":
                rs = self.call_class(s2, v, [], {}, None, None, None)
                return self.lift(rs, lambda s3, e: [Outcome(s3, "raise", e)])
            return [Outcome(s2, "raise", v)]
        return self.lift(self.ev(s.exc, st), k)

    def ex_Delete(self, s, st):
        raise Unsupported("del statement")

    # ------------------------------------------------------------------ assignment
    def ex_Assign(self, s, st):
        def k(s2, v):
            outs = [Outcome(s2, "normal")]
            for t in s.targets:
                nxt = []
                for o in outs:
                    if o.kind != "normal":
                        nxt.append(o)
                    else:
                        nxt.extend(self.assign(o.st, t, v))
                outs = nxt
            return outs
        if isinstance(s.value, ast.Yield):
            return self.lift(self.ev_Yield(s.value, st), k)
        return self.lift(self.ev(s.value, st), k)

    def ex_AnnAssign(self, s, st):
        if s.value is None:
            return [Outcome(st, "normal")]
        return self.lift(self.ev(s.value, st), lambda s2, v: self.assign(s2, s.target, v))

    def set_local(self, st, name, v):
        f = st.fid
        fr = st.frames[f]
        if name in fr.get("$nonlocal", ()):
            p = fr["$parent"]
            while p is not None:
                if name in st.frames[p]:
                    st.frames[p][name] = v
                    return
                p = st.frames[p]["$parent"]
            raise Unsupported("nonlocal target not found")
        fr[name] = v

    def assign(self, st, target, v):
        if isinstance(target, ast.Name):
            self.set_local(st, target.id, v)
            return [Outcome(st, "normal")]
        if isinstance(target, (ast.Tuple, ast.List)):
            v = self.concretize(st, v)
            if v.k == "tuple":
                if len(v.x) != len(target.elts):
                    return [Outcome(st, "raise", self.raise_new(st, "ValueError").exc)]
                outs = [Outcome(st, "normal")]
                for t, x in zip(target.elts, v.x):
                    nxt = []
                    for o in outs:
                        nxt.extend(self.assign(o.st, t, x) if o.kind == "normal" else [o])
                    outs = nxt
                return outs
            if v.k in ("list", "seq"):
                sq = v.t if v.k == "seq" else self.seq_of(st, v)
                n = len(target.elts)
                out = []
                for s2, b in self.fork(st, z3.Length(sq) == n):
                    if not b:
                        out.append(Outcome(s2, "raise", self.raise_new(s2, "ValueError").exc))
                        continue
                    outs = [Outcome(s2, "normal")]
                    for i, t in enumerate(target.elts):
                        el = sq[i]
                        x = self.from_val(s2, el, v.h) if v.h else SV("val", el)
                        nxt = []
                        for o in outs:
                            nxt.extend(self.assign(o.st, t, x) if o.kind == "normal" else [o])
                        outs = nxt
                    out.extend(outs)
                return out
            raise Unsupported("unpacking of " + v.k)
        if isinstance(target, ast.Attribute):
            def k(s2, obj):
                obj = self.concretize(s2, obj)
                if obj.k == "module":
                    key = (obj.t, target.attr)
                    if key not in self.mutable_globals:
                        raise Unsupported("assignment to immutable module global")
                    self.hset(s2, "@%s:%s" % key, z3.IntVal(0), box(self.heapify(s2, v)))
                    return [Outcome(s2, "normal")]
                if obj.k == "func":
                    self.hset(s2, "fattr:" + target.attr, z3.IntVal(0), box(self.heapify(s2, v)))
                    return [Outcome(s2, "normal")]
                if obj.k == "val":
                    if self.implied(s2, Val.is_RefV(obj.t)):
                        obj = SV("obj", Val.rv(obj.t))
                    else:
                        raise Unsupported("attribute store on untyped value")
                if obj.k not in ("inst", "obj"):
                    raise Unsupported("attribute store on " + obj.k)
                self.check_held(s2, obj, target.attr)
                self.hset(s2, target.attr, obj.t, box(self.heapify(s2, v)))
                return [Outcome(s2, "normal")]
            return self.lift(self.ev(target.value, st), k)
        if isinstance(target, ast.Subscript):
            if isinstance(target.slice, ast.Slice):
                raise Unsupported("slice assignment")

            def k2(s2, vs):
                return self.lift(self.store_item(s2, vs[0], vs[1], v), lambda s3, _: [Outcome(s3, "normal")])
            return self.lift_chain(st, [target.value, target.slice], k2)
        raise Unsupported("assignment target " + type(target).__name__)

    def lift_chain(self, st, exprs, k):
        """chain() for statements: k returns [Outcome]"""
        def go(st, i, vals):
            if i == len(exprs):
                return k(st, vals)
            out = []
            for r in self.ev(exprs[i], st):
                if r.exc is not None:
                    out.append(Outcome(r.st, "raise", r.exc))
                else:
                    out.extend(go(r.st, i + 1, vals + [r.val]))
            return out
        return go(st, 0, [])

    def store_item(self, st, base, idx, v):
        base = self.concretize(st, base)
        idx = self.concretize(st, idx)
        if base.k == "dict":
            kb = box(idx)
            self.hset(st, "$dom", base.t, z3.Store(self.dom_of(st, base), kb, z3.BoolVal(True)))
            self.hset(st, "$map", base.t, z3.Store(self.map_of(st, base), kb, box(self.heapify(st, v))))
            return [Res(st, SV("none"))]
        if base.k == "list":
            if base.x == "tuple":
                return [self.raise_new(st, "TypeError")]
            if idx.k != "int":
                raise Unsupported("list store index kind " + idx.k)
            sq = self.seq_of(st, base)
            n = z3.Length(sq)
            i = self.norm_index(n, idx.t)

            def k(s):
                pre = self.fresh("pre", SeqV)
                suf = self.fresh("suf", SeqV)
                old = self.fresh("el", Val)
                # decomposition encoding (DESIGN 3.1): sq == pre ++ [old] ++ suf, |pre| == i
                s.assume(sq == z3.Concat(pre, z3.Unit(old), suf))
                s.assume(z3.Length(pre) == i)
                self.hset(s, "$seq", base.t, z3.Concat(pre, z3.Unit(box(self.heapify(s, v))), suf))
                return [Res(s, SV("none"))]
            return self.may_raise(st, z3.And(i >= 0, i < n), "IndexError", k)
        if base.k == "val" and not st.spec:
            # x[k] = v on a dynamically typed value: a dict object is updated; any other object answers through an opaque __setitem__;
            # a primitive raises TypeError
            t = base.t
            out = []
            isd = z3.And(Val.is_RefV(t), clsof(Val.rv(t)) == self.ct.id("dict"))
            for s2, b in self.fork(st, isd, "store:dict"):
                if b:
                    out.extend(self.store_item(s2, SV("dict", Val.rv(t)), idx, v))
                    continue
                for s3, b3 in self.fork(s2, Val.is_RefV(t), "store:obj"):
                    if b3:
                        for r in self.call_opaque(s3, SV("obj", Val.rv(t), h="Opaque"), "Opaque", "__setitem__", [idx, v], {}, None, None):
                            out.append(r if r.exc is not None else Res(r.st, SV("none")))
                    else:
                        out.append(self.raise_new(s3, "TypeError"))
            return out
        raise Unsupported("item store on " + base.k)

    def ex_AugAssign(self, s, st):
        t = s.target
        if isinstance(t, ast.Name):
            load = ast.Name(id=t.id, ctx=ast.Load())
            return self.lift_chain(st, [load, s.value],
                                   lambda s2, vs: self.lift(self.binop(s2, s.op, vs[0], vs[1]),
                                                            lambda s3, r: self.assign(s3, t, r)))
        if isinstance(t, ast.Subscript) and not isinstance(t.slice, ast.Slice):
            def k(s2, vs):
                base, idx, inc = vs
                def k2(s3, cur):
                    return self.lift(self.binop(s3, s.op, cur, inc),
                                     lambda s4, r: self.lift(self.store_item(s4, base, idx, r),
                                                             lambda s5, _: [Outcome(s5, "normal")]))
                return self.lift(self.index(s2, base, idx), k2)
            return self.lift_chain(st, [t.value, t.slice, s.value], k)
        if isinstance(t, ast.Attribute):
            def k3(s2, vs):
                obj, inc = vs
                return self.lift(self.getattr(s2, obj, t.attr),
                                 lambda s3, cur: self.lift(self.binop(s3, s.op, cur, inc),
                                                           lambda s4, r: self.assign_attr_val(s4, obj, t.attr, r)))
            return self.lift_chain(st, [t.value, s.value], k3)
        raise Unsupported("augmented assignment target")

    def assign_attr_val(self, st, obj, attr, v):
        obj = self.concretize(st, obj)
        if obj.k not in ("inst", "obj"):
            raise Unsupported("attribute store on " + obj.k)
        self.check_held(st, obj, attr)
        self.hset(st, attr, obj.t, box(self.heapify(st, v)))
        return [Outcome(st, "normal")]

    def check_held(self, st, obj, attr):
        """ghost permission: fields declared lock-protected may only be touched while the lock is held"""
        prot = SP.FIELDS.get((obj.h or "") + "$protected", {})
        if attr in prot and self.cur is not None and not self.cur.extra.get("constructor") and \
                self.cur.qualname.startswith((obj.h or "?") + "."):
            # the lock discipline binds the class's own methods; readers of the public attributes outside the class are not covered
            lock = self.hget(st, prot[attr], obj.t)
            held = z3.Or(*[h == lock for h in st.held]) if st.held else z3.BoolVal(False)
            if z3.is_true(z3.simplify(held)):
                return
            self.emit(st, "token@%s.%s" % (obj.h, attr), held, "token")

    # ------------------------------------------------------------------ if
    def ordinal(self, node, kind):
        tab = self.__dict__.setdefault("_ordinals", {})
        key = id(node)
        if key in tab:
            return tab[key]
        # assign ordinals lazily per enclosing function of self.cur
        cnt = self.__dict__.setdefault("_ordcount", {})
        n = cnt.get(kind, 0)
        cnt[kind] = n + 1
        tab[key] = "%s#%d" % (kind, n)
        return tab[key]

    def ex_If(self, s, st):
        label = self.ordinal(s, "if")
        out = []
        for r in self.ev(s.test, st):
            if r.exc is not None:
                out.append(Outcome(r.st, "raise", r.exc))
                continue
            for s2, b in self.fork(r.st, self.truth(r.st, r.val), label):
                out.extend(self.exec_block(s.body if b else s.orelse, s2))
        return out

    # ------------------------------------------------------------------ try
    def exc_matches(self, st, exc, typ_expr):
        """z3 Bool: does the exception match `except <typ_expr>`?"""
        if typ_expr is None:
            return z3.BoolVal(True)
        rs = self.ev(typ_expr, st)
        if len(rs) != 1 or rs[0].exc is not None:
            raise Unsupported("except clause expression")
        tv = rs[0].val
        classes = tv.x if tv.k == "tuple" else [tv]
        c = clsof(exc.t)
        alts = []
        for cl in classes:
            cl = self.concretize(st, cl)
            if cl.k == "ext" and self.ct.has(cl.t.split(".")[-1]):
                # an exception class imported from a library module and known to the class table (e.g. json.JSONDecodeError)
                nm = cl.t.split(".")[-1]
                cl = SV("cls", z3.IntVal(self.ct.id(nm)), h=nm)
            if cl.k == "builtin" and self.ct.has(cl.t):
                cl = SV("cls", z3.IntVal(self.ct.id(cl.t)), h=cl.t)
            if cl.k != "cls":
                raise Unsupported("except clause is not a class")
            alts.append(issub(c, cl.t))
        return z3.Or(*alts) if len(alts) > 1 else alts[0]

    def ex_Try(self, s, st):
        label = self.ordinal(s, "try")
        outs = []
        for o in self.exec_block(s.body, st):
            if o.kind == "normal":
                outs.extend(self.exec_block(s.orelse, o.st) if s.orelse else [o])
            elif o.kind == "raise" and s.handlers:
                outs.extend(self.handle(s, o, label))
            else:
                outs.append(o)
        if not s.finalbody:
            return outs
        final = []
        for o in outs:
            for fo in self.exec_block(s.finalbody, o.st):
                if fo.kind == "normal":
                    final.append(Outcome(fo.st, o.kind, o.val))
                else:
                    final.append(fo)
        return final

    def handle(self, s, o, label):
        out = []
        st = o.st
        exc = o.val
        pending = [st]
        for hi, h in enumerate(s.handlers):
            nxt = []
            for cur in pending:
                m = self.exc_matches(cur, exc, h.type)
                for s2, b in self.fork(cur, m, "%s:h%d" % (label, hi)):
                    if b:
                        if h.name:
                            s2.frame[h.name] = exc
                        s2.exc_stack.append(exc)
                        for ho in self.exec_block(h.body, s2):
                            if ho.st.exc_stack and ho.st.exc_stack[-1] is exc:
                                ho.st.exc_stack.pop()
                            out.append(ho)
                    else:
                        nxt.append(s2)
            pending = nxt
        for cur in pending:
            out.append(Outcome(cur, "raise", exc))
        return out

    # ------------------------------------------------------------------ with
    def ex_With(self, s, st):
        if len(s.items) != 1:
            inner = ast.With(items=s.items[1:], body=s.body)
            return self.ex_With(ast.With(items=[s.items[0]], body=[inner]), st)
        item = s.items[0]

        def k(s2, cm):
            cm = self.concretize(s2, cm)
            if cm.k == "ctxmgr":
                return self.with_generator_cm(s2, cm, item.optional_vars, s.body)
            if cm.k == "inst" and cm.h and self.find_member(cm.h, "__enter__"):
                return self.with_object(s2, cm, item.optional_vars, s.body)
            if cm.k in ("val", "obj") or (cm.k == "inst" and cm.h == "Lock"):
                # a lock (declared field type): acquire / release around the block
                lock = box(cm)
                if any(z3.eq(h, lock) for h in s2.held):
                    raise Unsupported("re-entrant acquire")
                self.assumptions.add("threading.Lock: `with lock` is acquire/release around the block on every exit; mutual exclusion")
                s2.held.append(lock)
                outs = self.exec_block(s.body, s2)
                for o in outs:
                    o.st.held = [h for h in o.st.held if not z3.eq(h, lock)]
                return outs
            raise Unsupported("with on " + cm.k)
        return self.lift(self.ev(item.context_expr, st), k)

    def with_object(self, st, cm, target, body):
        """with protocol on an object of a /repo class: __enter__ / __exit__ through their contracts"""
        enter = self.getattr(st, cm, "__enter__")[0].val
        out = []
        for r in self.call(st, enter, [], {}):
            if r.exc is not None:
                out.append(Outcome(r.st, "raise", r.exc))
                continue
            s2 = r.st
            outs = [Outcome(s2, "normal")]
            if target is not None:
                outs = self.assign(s2, target, r.val)
            for o in outs:
                if o.kind != "normal":
                    out.append(o)
                    continue
                for bo in self.exec_block(body, o.st):
                    ex = self.getattr(bo.st, cm, "__exit__")[0].val
                    if bo.kind == "raise":
                        e = bo.val
                        args = [SV("cls", clsof(e.t)), e, SV("val", self.fresh("tb", Val))]
                    else:
                        args = [SV("none"), SV("none"), SV("none")]
                    for xr in self.call(bo.st, ex, args, {}):
                        if xr.exc is not None:
                            out.append(Outcome(xr.st, "raise", xr.exc))
                        elif bo.kind == "raise":
                            for s3, sup in self.fork(xr.st, self.truth(xr.st, xr.val)):
                                out.append(Outcome(s3, "normal") if sup else Outcome(s3, "raise", bo.val))
                        else:
                            out.append(Outcome(xr.st, bo.kind, bo.val))
        return out

    def with_generator_cm(self, st, cm, target, body):
        """@contextmanager: run the generator body; the with-body runs at its (single) yield"""
        f = cm.t
        fn = f.t
        caller = st.fid
        frame = self.resolve_defaults(st, cm.x, f)
        fid = st.new_frame(f.x.get("env"), f.x["module"])
        st.frames[fid].update(frame)
        st.frames[fid]["$fn"] = fn
        st.fid = fid
        outer_handler = st.yield_handler
        yielded = [0]

        def handler(s2, val):
            # executing the with-body in the caller's frame
            s2.fid = caller
            saved = s2.yield_handler
            s2.yield_handler = outer_handler
            outs = [Outcome(s2, "normal")]
            if target is not None:
                outs = self.assign(s2, target, val)
            res = []
            for o in outs:
                if o.kind != "normal":
                    res.append(o)
                    continue
                res.extend(self.exec_block(body, o.st))
            back = []
            for o in res:
                o.st.fid = fid
                o.st.yield_handler = None       # a second yield is an error of the generator
                if o.kind == "normal":
                    back.append(Res(o.st, SV("none")))
                elif o.kind == "raise":
                    back.append(Res(o.st, exc=o.val))
                else:
                    # return/break/continue leave the with block: the generator is closed (GeneratorExit at the yield)
                    ge = self.raise_new(o.st, "GeneratorExit")
                    ge.st.snap = dict(ge.st.snap)
                    ge.st.snap["$pending"] = (o.kind, o.val, ge.exc)
                    back.append(ge)
            return back
        st.yield_handler = handler
        out = []
        for o in self.exec_block(fn.body, st):
            o.st.fid = caller
            o.st.yield_handler = outer_handler
            pend = o.st.snap.get("$pending")
            if pend is not None:
                o.st.snap = dict(o.st.snap)
                del o.st.snap["$pending"]
                if o.kind == "raise" and o.val is pend[2]:
                    out.append(Outcome(o.st, pend[0], pend[1]))
                elif o.kind in ("normal", "return"):
                    out.append(Outcome(o.st, pend[0], pend[1]))
                else:
                    out.append(o)
            elif o.kind == "return":
                out.append(Outcome(o.st, "normal"))
            else:
                out.append(o)
        return out

    def ev_Yield(self, e, st):
        if st.yield_handler is None:
            raise Unsupported("yield outside a modelled generator context")
        h = st.yield_handler
        if e.value is None:
            return h(st, SV("none"))
        out = []
        for r in self.ev(e.value, st):
            if r.exc is not None:
                out.append(r)
            else:
                out.extend(h(r.st, r.val))
        return out
