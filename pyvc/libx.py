"""Library models: contextvars, threading, time/uuid, inspect, sys, warnings, traceback; comprehensions."""
import ast
import z3

from .sorts import (Val, Ev, SeqV, SeqE, SetV, MapV, I, B, S, clsof, issub, cls_module, cls_name,
                    SV, REFKINDS, box, Unsupported, SpecError)
from . import spec as SP
from .engine import Res, State, NoneV, Ob, Outcome
from .models import fmt2, str_of

mro_of = z3.Function("mro_of", I, SeqV)      # inspect.getmro(cls) as a sequence of ClsV


class LibMixin:
    # ------------------------------------------------------------------ ContextVar (token model)
    def me_of(self, st):
        """the context the code is currently running in (switched by Context.run)"""
        return st.snap.get("$me", self.me)

    def ctx_cell(self, st):
        return z3.Select(self.harr(st, "#CTX"), self.me_of(st))

    def ctxvar_method(self, st, recv, name, a):
        self.assumptions.add("contextvars.ContextVar: get/set/reset act on the current context only; set returns a token "
                             "holding the previous value; reset(token) restores it (RuntimeError if the token was already used)")
        if name == "get":
            cur = self.ctx_cell(st)
            hint = SP.GLOBAL_HINTS.get(recv.t)
            unset = cur == Val.ClsV(z3.IntVal(-1))      # sentinel "no value in this context"
            dflt = a[0] if a else None
            out = []
            for s2, b in self.fork(st, unset):
                if b:
                    if dflt is None:
                        out.append(self.raise_new(s2, "LookupError"))
                    else:
                        out.append(Res(s2, dflt))
                else:
                    out.append(Res(s2, self.from_val(s2, cur, hint) if hint else SV("val", cur)))
            return out
        if name == "set":
            cur = self.ctx_cell(st)
            tok = self.alloc(st, "Token")
            self.hset(st, "tok_old", tok, cur)
            self.hset(st, "tok_used", tok, Val.BoolV(z3.BoolVal(False)))
            self.hset(st, "tok_ctx", tok, Val.IntV(self.me_of(st)))
            st.heap["#CTX"] = z3.Store(self.harr(st, "#CTX"), self.me_of(st), box(self.heapify(st, a[0])))
            st.writes.append(("#CTX", self.me_of(st)))
            return [Res(st, SV("inst", tok, h="Token"))]
        if name == "reset":
            tok = self.concretize(st, a[0])
            if tok.k == "val":
                return self.may_raise(st, z3.And(Val.is_RefV(tok.t), clsof(Val.rv(tok.t)) == self.ct.id("Token")), "TypeError",
                                      lambda s: self.ctxvar_method(s, recv, "reset", [SV("inst", Val.rv(tok.t), h="Token")]))
            if tok.k != "inst":
                return [self.raise_new(st, "TypeError")]
            used = Val.bv(self.hget(st, "tok_used", tok.t))
            same_ctx = self.hget(st, "tok_ctx", tok.t) == Val.IntV(self.me_of(st))

            def k(s):
                s.heap["#CTX"] = z3.Store(self.harr(s, "#CTX"), self.me_of(st), self.hget(s, "tok_old", tok.t))
                s.writes.append(("#CTX", self.me_of(st)))
                self.hset(s, "tok_used", tok.t, Val.BoolV(z3.BoolVal(True)))
                return [Res(s, SV("none"))]
            return self.may_raise(st, z3.And(z3.Not(used), same_ctx), "RuntimeError", k)
        raise Unsupported("ContextVar." + name)

    # ------------------------------------------------------------------ threading.Lock (atomic test-and-set + ghost token)
    def lock_method(self, st, lock, name, a):
        self.assumptions.add("threading.Lock.acquire(False) is an atomic test-and-set: it returns True for exactly one caller until released; "
                             "a successful acquire hands the caller the ghost token of the lock")
        locked = Val.bv(self.hget(st, "locked_flag", lock.t))
        if name == "acquire":
            blocking = a[0] if a else SV("bool", z3.BoolVal(True))
            out = []
            for s2, was in self.fork(st, locked, "lock:held"):
                if was:
                    if z3.is_false(z3.simplify(blocking.t)):
                        out.append(Res(s2, SV("bool", z3.BoolVal(False))))
                    else:
                        raise Unsupported("blocking acquire of a held lock (would block)")
                else:
                    self.hset(s2, "locked_flag", lock.t, Val.BoolV(z3.BoolVal(True)))
                    s2.held.append(Val.RefV(lock.t))
                    out.append(Res(s2, SV("bool", z3.BoolVal(True))))
            return out
        if name == "release":
            self.hset(st, "locked_flag", lock.t, Val.BoolV(z3.BoolVal(False)))
            st.held = [h for h in st.held if not z3.eq(h, Val.RefV(lock.t))]
            return [Res(st, SV("none"))]
        if name == "locked":
            return [Res(st, SV("bool", locked))]
        raise Unsupported("Lock." + name)

    # ------------------------------------------------------------------ external library functions
    def call_ext(self, st, name, pos, kw, star, starkw, node):
        a = [self.concretize(st, x) for x in pos]
        short = name.split(".")[-1]
        if name.startswith("pyrsistent."):
            r_ = self.pyr_ext(st, name, a, kw)
            if r_ is not None:
                return r_
        if name in ("time.time",):
            self.assumptions.add("time.time() returns a float and never raises")
            return [Res(st, SV("float", self.fresh("now", I)))]
        if name in ("uuid.uuid4",):
            self.assumptions.add("uuid4() returns a value whose str() is distinct from every task uuid in use (probabilistic freshness)")
            r = self.alloc(st, "object")
            u = self.fresh("uuid", S)
            st.assume(str_of(Val.RefV(r)) == u)
            fresh_uuid = SP.__dict__.get("UUID_FRESH")
            if fresh_uuid:
                st.assume(fresh_uuid(self, st, u))
            self.hset(st, "$uuid_str", r, Val.StrV(u))
            return [Res(st, SV("obj", r, h="UUID"))]
        if name == "inspect.getmro":
            c = a[0]
            self.assumptions.add("inspect.getmro(cls): starts with cls, every entry is a superclass of cls, every known superclass occurs")
            sq = mro_of(c.t)
            return [Res(st, SV("seq", sq, h="cls"))]
        if name == "sys.exc_info":
            if not st.exc_stack:
                amb = getattr(self, "ambient_exc", None)
                if amb is None:
                    return [Res(st, SV("tuple", None, x=[SV("none"), SV("none"), SV("none")]))]
                self.assumptions.add("sys.exc_info() outside the function's own handlers: (None, None, None) or the exception the caller is handling (either, for every call)")
                flag = z3.Bool("ambient_handling")
                s0, s1 = st.copy(), st.copy()
                s0.assume(z3.Not(flag)); s1.assume(flag)
                s0.trail.append("excinfo:none"); s1.trail.append("excinfo:ambient")
                return [Res(s0, SV("tuple", None, x=[SV("none"), SV("none"), SV("none")])),
                        Res(s1, SV("tuple", None, x=[SV("cls", clsof(amb.t)), amb, SV("val", self.fresh("tb", Val))]))]
            e = st.exc_stack[-1]
            return [Res(st, SV("tuple", None, x=[SV("cls", clsof(e.t)), e, SV("val", self.fresh("tb", Val))]))]
        if name in ("warnings.warn",):
            self.assumptions.add("warnings.warn does not raise (the warnings filter does not turn Eliot's own DeprecationWarnings into errors)")
            return [Res(st, SV("none"))]
        if name == "threading.Lock":
            r = self.alloc(st, "Lock")
            self.hset(st, "locked_flag", r, Val.BoolV(z3.BoolVal(False)))
            return [Res(st, SV("inst", r, h="Lock"))]
        if name == "contextvars.copy_context":
            self.assumptions.add("copy_context() returns a new Context object holding a snapshot of the caller's context; "
                                 "Context.run(f) runs f with that context current: sets persist in it and are invisible to the caller")
            r = self.alloc(st, "Context")
            self.hset(st, "ctx_id_", r, Val.IntV(self.fresh("ctxid", I)))
            cid = Val.iv(self.hget(st, "ctx_id_", r))
            st.assume(cid != self.me_of(st))
            st.assume(cid != self.me)
            st.heap["#CTX"] = z3.Store(self.harr(st, "#CTX"), cid, self.ctx_cell(st))
            if "NCOPY" in self.ghost_names():
                st.heap["#NCOPY"] = self.harr(st, "#NCOPY") + 1
            return [Res(st, SV("inst", r, h="Context"))]
        if name == "functools.partial":
            return [Res(st, SV("partial", a[0], x=(a[1:], dict(kw))))]
        if name == "queue.SimpleQueue":
            r = self.alloc(st, "SimpleQueue")
            return [Res(st, SV("obj", r, h="Queue"))]
        if name == "threading.Thread":
            r = self.alloc(st, "Thread")
            tgt = kw.get("target")
            if tgt is not None:
                self.hset(st, "$thread_target", r, box(self.heapify(st, tgt)))
                st.heap["#THREADS"] = z3.Concat(self.harr(st, "#THREADS"), z3.Unit(Ev.mkEv(z3.StringVal("thread.new"), Val.RefV(r),
                                                box(self.heapify(st, tgt)), NoneV, NoneV, NoneV, NoneV, NoneV)))
            return [Res(st, SV("obj", r, h="Thread"))]
        if name.endswith("PClass.__new__"):
            cls = a[0]
            if cls.k != "cls" or not cls.h:
                raise Unsupported("PClass.__new__ on a symbolic class")
            return self.pclass_new(st, cls.h, [], kw, None, None)
        if name == "collections.OrderedDict" and not a and not kw:
            return [Res(st, self.new_dict(st))]
        if name == "inspect.getcallargs":
            self.assumptions.add("inspect.getcallargs(f, *a, **kw): Python's own binding of the call -- a fresh dict of parameter name -> bound value, "
                                 "or TypeError exactly when the call f(*a, **kw) would fail to bind")
            s_bad = st.copy()
            bound_ok = self.fresh("binds", z3.BoolSort())
            out = []
            for s2, b in self.fork(st, bound_ok, "getcallargs"):
                if b:
                    from .models import PARAMS_OF
                    from .models import BOUND_MAP
                    sq_, dom_, mp_ = self.pack_args(s2, list(pos[1:]), kw, star, starkw)
                    # the binding is a function of the callable and of the arguments (Python's binding rules, not interpreted further)
                    d = self.new_dict(s2, PARAMS_OF(box(a[0])), BOUND_MAP(box(a[0]), sq_, dom_, mp_))
                    k = z3.Const("k!ca", Val)
                    s2.assume(z3.ForAll([k], z3.Implies(z3.Select(self.dom_of(s2, d), k), Val.is_StrV(k)), patterns=[z3.Select(self.dom_of(s2, d), k)]))
                    out.append(Res(s2, d))
                else:
                    out.append(self.raise_new(s2, "TypeError"))
            return out
        # generic: opaque library function with a registered interface model
        key = "iface::ext.%s" % name
        if key in SP.CONTRACTS:
            c = SP.CONTRACTS[key]
            self.assumptions.add("library model %s: %s" % (name, c.notes))
            params = c.extra.get("params", [])
            fr = {}
            for p, v in zip(params, pos):
                fr[p] = v
            for p, v in kw.items():
                fr[p] = v
            for p in params:
                if p not in fr:
                    d = c.extra.get("defaults", {})
                    if p in d:
                        fr[p] = self.const(d[p])
                    else:
                        raise Unsupported("missing argument %s for %s" % (p, name))
            return self.apply_contract(st, c, None, None, [], {}, None, None, None, frame=fr)
        raise Unsupported("library function " + name)

    # ------------------------------------------------------------------ comprehensions
    def ev_GeneratorExp(self, e, st):
        if st.spec:
            raise SpecError("generator expression in spec")
        return [Res(st, SV("genexp", e, x=st.fid))]

    def ev_ListComp(self, e, st):
        """[f(x) for x in xs if p(x)] over a sequence: only the forms with a trusted compositional model"""
        if len(e.generators) != 1:
            raise Unsupported("nested comprehension")
        g = e.generators[0]
        out = []
        for r in self.ev(g.iter, st):
            if r.exc is not None:
                out.append(r)
                continue
            out.extend(self.listcomp(r.st, e, g, r.val))
        return out

    def listcomp(self, st, e, g, it):
        it = self.concretize(st, it)
        # recognised shape 1: [int(i) for i in <seq of str> if i]   (TaskLevel.fromString)
        if (isinstance(e.elt, ast.Call) and isinstance(e.elt.func, ast.Name) and e.elt.func.id == "int"
                and len(e.elt.args) == 1 and isinstance(e.elt.args[0], ast.Name) and isinstance(g.target, ast.Name)
                and e.elt.args[0].id == g.target.id and len(g.ifs) == 1 and isinstance(g.ifs[0], ast.Name)
                and g.ifs[0].id == g.target.id and it.k == "seq" and it.h == "str"):
            f = z3.Function("map_int_nonempty", SeqV, SeqV)
            ok = z3.Function("all_int_nonempty", SeqV, B)
            self.assumptions.add("[int(i) for i in xs if i]: map_int_nonempty (axioms: inverse of map_str/join/split on levels), ValueError if some non-empty piece is not an integer")
            return self.may_raise(st, ok(it.t), "ValueError", lambda s: [Res(s, self.new_list(s, f(it.t), "int"))])
        # general shape: unrollable static tuple
        if it.k == "tuple":
            vals = []
            rs = [Res(st, [])]
            for x in it.x:
                nxt = []
                for r in rs:
                    if r.exc is not None:
                        nxt.append(r)
                        continue
                    s2 = r.st
                    fid = s2.new_frame(s2.fid, None)
                    saved = s2.fid
                    s2.fid = fid
                    for ao in self.assign(s2, g.target, x):
                        conds = [Res(ao.st, True)]
                        keep = self.chain(ao.st, list(g.ifs), lambda s3, vs: [Res(s3, vs)])
                        for kr in keep:
                            if kr.exc is not None:
                                kr.st.fid = saved
                                nxt.append(kr)
                                continue
                            cond = z3.And(*[self.truth(kr.st, v) for v in kr.val]) if kr.val else z3.BoolVal(True)
                            for s4, b in self.fork(kr.st, cond):
                                if not b:
                                    s4.fid = saved
                                    nxt.append(Res(s4, r.val))
                                else:
                                    for er in self.ev(e.elt, s4):
                                        er.st.fid = saved
                                        nxt.append(er if er.exc is not None else Res(er.st, r.val + [er.val]))
                rs = nxt
            out = []
            for r in rs:
                if r.exc is not None:
                    out.append(r)
                else:
                    out.append(Res(r.st, self.new_list(r.st, self.mkseq([box(self.heapify(r.st, v)) for v in r.val]))))
            return out
        if (it.k == "dictview" and it.t[1] == "items" and len(g.ifs) == 1 and isinstance(e.elt, ast.Tuple) and len(e.elt.elts) == 2
                and isinstance(g.target, ast.Tuple) and len(g.target.elts) == 2 and all(isinstance(x, ast.Name) for x in g.target.elts + e.elt.elts)
                and [x.id for x in g.target.elts] == [x.id for x in e.elt.elts]
                and isinstance(g.ifs[0], ast.Compare) and len(g.ifs[0].ops) == 1 and isinstance(g.ifs[0].ops[0], ast.In)
                and isinstance(g.ifs[0].left, ast.Name) and g.ifs[0].left.id == g.target.elts[0].id):
            # [(k, v) for k, v in d.items() if k in other]: the items of d restricted to the keys found in `other`
            out = []
            for r in self.ev(g.ifs[0].comparators[0], st):
                if r.exc is not None:
                    out.append(r)
                    continue
                other = self.concretize(r.st, r.val)
                d = it.t[0]
                keep = self.as_sset(r.st, other) if other.k in ("dict", "sdict", "sset", "cset") else None
                if keep is None:
                    raise Unsupported("restriction comprehension over " + other.k)
                dom = z3.SetIntersect(self.dom_of(r.st, d), keep)
                mp = self.ite_map(keep, self.map_of(r.st, d), z3.K(Val, NoneV))
                lst = self.new_list(r.st, self.fresh("pairs", SeqV))
                lst.x = "pairs"
                lst.h = (dom, mp)
                out.append(Res(r.st, lst))
            return out
        if it.k == "dictview" and not g.ifs:
            d, mode = it.t
            keys = self.dict_keys_seq(st, d)
            out = []
            s_el = st.copy()
            i = self.fresh("lci", I)
            s_el.assume(i >= 0)
            s_el.assume(i < z3.Length(keys))
            saved = s_el.fid
            fid = s_el.new_frame(saved, None)
            s_el.fid = fid
            el = self.elem_value(s_el, keys, None, (mode, d), i)
            s_el.assume(z3.Select(self.dom_of(s_el, d), keys[i]))       # ground instance of the enumeration axiom
            for ao in self.assign(s_el, g.target, el):
                for er in self.ev(e.elt, ao.st):
                    er.st.fid = saved
                    if er.exc is not None:
                        out.append(er)
            res = self.fresh("lcres", SeqV)
            st.assume(z3.Length(res) == z3.Length(keys))
            out.append(Res(st, self.new_list(st, res)))
            return out
        if it.k in ("list", "seq") and not g.ifs:
            # [f(x) for x in xs]: evaluated once on an arbitrary element (so whatever f can raise is seen); the result is a fresh
            # sequence of the same length whose elements are not interpreted (sound for the pure element expressions it is used for)
            sq = it.t if it.k == "seq" else self.seq_of(st, it)
            out = []
            s_el = st.copy()
            i = self.fresh("lci", I)
            s_el.assume(i >= 0)
            s_el.assume(i < z3.Length(sq))
            saved = s_el.fid
            fid = s_el.new_frame(saved, None)
            s_el.fid = fid
            el = self.from_val(s_el, sq[i], it.h) if it.h else SV("val", sq[i])
            ek = None
            for ao in self.assign(s_el, g.target, el):
                for er in self.ev(e.elt, ao.st):
                    er.st.fid = saved
                    if er.exc is not None:
                        out.append(er)
                    else:
                        ek = er.val.k
            res = self.fresh("lcres", SeqV)
            st.assume(z3.Length(res) == z3.Length(sq))
            out.append(Res(st, self.new_list(st, res, ek if ek in ("str", "int") else None)))
            return out
        raise Unsupported("list comprehension over " + it.k)

    def ev_DictComp(self, e, st):
        # {k: callargs[k] for k in include_args}: restriction of a dict to a key list
        g = e.generators[0]
        if (len(e.generators) == 1 and not g.ifs and isinstance(g.target, ast.Name) and isinstance(e.key, ast.Name)
                and e.key.id == g.target.id and isinstance(e.value, ast.Subscript) and isinstance(e.value.slice, ast.Name)
                and e.value.slice.id == g.target.id):
            def k(s, vs):
                src, keys = self.concretize(s, vs[0]), self.concretize(s, vs[1])
                if src.k != "dict" or keys.k not in ("list", "seq"):
                    raise Unsupported("dict comprehension operands")
                ks = keys.t if keys.k == "seq" else self.seq_of(s, keys)
                dom, mp = self.dom_of(s, src), self.map_of(s, src)
                inkeys = self.set_of_seq(s, ks)
                allin = z3.IsSubset(inkeys, dom)
                return self.may_raise(s, allin, "KeyError",
                                      lambda s2: [Res(s2, self.new_dict(s2, inkeys, self.ite_map(inkeys, mp, z3.K(Val, NoneV))))])
            return self.chain(st, [e.value.value, g.iter], k)
        raise Unsupported("dict comprehension shape")

    def dict_from_gen(self, st, gen):
        """dict((f(k), g(v)) for (k, v) in d.items()) with opaque f, g: result is an opaque fresh dict; each
        element evaluation may raise (models _safe_unicode_dictionary)"""
        e = gen.t
        g = e.generators[0]
        saved = st.fid
        st.fid = gen.x
        try:
            rs = self.ev(g.iter, st)
        finally:
            st.fid = saved
        out = []
        for r in rs:
            if r.exc is not None:
                out.append(r)
                continue
            it = self.concretize(r.st, r.val)
            if it.k != "dictview":
                raise Unsupported("dict(genexp) over " + it.k)
            # zero or more element evaluations: the first failing one raises; model: either all succeed (fresh dict) or
            # one arbitrary element raises what the element expression can raise on an arbitrary entry
            s_ok = r.st
            d = it.t[0]
            s_el = s_ok.copy()
            keys = self.dict_keys_seq(s_el, d)
            i = self.fresh("gi", I)
            s_el.assume(i >= 0)
            s_el.assume(i < z3.Length(keys))
            fid = s_el.new_frame(gen.x, None)
            s_el.fid = fid
            el = self.elem_value(s_el, keys, None, (it.t[1], d), i)
            for ao in self.assign(s_el, g.target, el):
                for er in self.ev(e.elt, ao.st):
                    er.st.fid = saved
                    if er.exc is not None:
                        out.append(er)
            # all elements fine (they may still have appended to ghost call logs: havoc #CALLS)
            if "#CALLS" in s_ok.heap:
                s_ok.heap["#CALLS"] = self.fresh("calls", SeqE)
                s_ok.assume(z3.PrefixOf(r.st.heap0.get("#CALLS", s_ok.heap["#CALLS"]), s_ok.heap["#CALLS"]))
            out.append(Res(s_ok, self.new_dict(s_ok, self.fresh("gdom", SetV), self.fresh("gmap", MapV))))
        return out

    def anyall_gen(self, st, gen, which):
        e = gen.t
        g = e.generators[0]
        saved = st.fid
        st.fid = gen.x
        try:
            rs = self.ev(g.iter, st)
        finally:
            st.fid = saved
        out = []
        for r in rs:
            if r.exc is not None:
                out.append(r)
                continue
            it = self.concretize(r.st, r.val)
            if it.k == "tuple":
                conds = []
                s2 = r.st
                for x in it.x:
                    fid = s2.new_frame(gen.x, None)
                    s2.fid = fid
                    self.assign(s2, g.target, x)
                    rr = self.ev(e.elt, s2)
                    if len(rr) != 1 or rr[0].exc is not None:
                        raise Unsupported("any/all element forks")
                    conds.append(self.truth(s2, rr[0].val))
                s2.fid = saved
                out.append(Res(s2, SV("bool", (z3.Or if which == "any" else z3.And)(*conds) if conds else z3.BoolVal(which == "all"))))
                continue
            if it.k in ("list", "seq"):
                sq = it.t if it.k == "seq" else self.seq_of(r.st, it)
                s2 = r.st
                i = z3.Int("i!aa%d" % self.bump())
                fid = s2.new_frame(gen.x, None)
                s2.fid = fid
                npc = len(s2.pc)
                self.assign(s2, g.target, self.from_val(s2, sq[i], it.h) if it.h else SV("val", sq[i]))
                rr = self.ev(e.elt, s2)
                s2.fid = saved
                if len(rr) != 1 or rr[0].exc is not None:
                    raise Unsupported("any/all element forks or raises")
                body = self.truth(s2, rr[0].val)
                leaked = s2.pc[npc:]
                del s2.pc[npc:]
                rng = z3.And(0 <= i, i < z3.Length(sq), *leaked)
                q = z3.Exists([i], z3.And(rng, body)) if which == "any" else z3.ForAll([i], z3.Implies(rng, body))
                out.append(Res(s2, SV("bool", q)))
                continue
            raise Unsupported("any/all over " + it.k)
        return out
