"""Loops as cut points (invariants from the sidecar, keyed by loop ordinal) and the top-level
verification of one function against its contract."""
import ast
import z3

from .sorts import (Val, Ev, SeqV, SeqE, SetV, MapV, I, B, S, clsof, issub, SV, REFKINDS, box, Unsupported, SpecError)
from . import spec as SP
from .engine import Res, State, NoneV, Ob, Outcome
from .frontend import loops_of
from .sorts import SV as SP_SV
SV = SP_SV


def split_conj(src):
    """split `A and B` / `implies(G, A and B)` into separately named obligations -> [(suffix, source)]"""
    e = SP.parse_expr(src)
    guard = None
    body = e
    if isinstance(e, ast.Call) and isinstance(e.func, ast.Name) and e.func.id == "implies" and len(e.args) == 2:
        guard, body = e.args
    if isinstance(body, ast.BoolOp) and isinstance(body.op, ast.And) and len(body.values) > 1:
        out = []
        for i, v in enumerate(body.values):
            t = ast.unparse(v)
            if guard is not None:
                t = "implies(%s, %s)" % (ast.unparse(guard), t)
            out.append((".%d" % i, t))
        return out
    return [("", src)]


def assigned_names(body):
    out = set()

    def tgt(t):
        if isinstance(t, ast.Name):
            out.add(t.id)
        elif isinstance(t, (ast.Tuple, ast.List)):
            for x in t.elts:
                tgt(x)

    def visit(n):
        if isinstance(n, (ast.FunctionDef, ast.Lambda, ast.ClassDef)):
            if isinstance(n, ast.FunctionDef):
                out.add(n.name)
            return
        if isinstance(n, ast.Assign):
            for t in n.targets:
                tgt(t)
        elif isinstance(n, (ast.AugAssign, ast.AnnAssign)):
            tgt(n.target)
        elif isinstance(n, (ast.For,)):
            tgt(n.target)
        elif isinstance(n, ast.With):
            for it in n.items:
                if it.optional_vars is not None:
                    tgt(it.optional_vars)
        elif isinstance(n, ast.ExceptHandler) and n.name:
            out.add(n.name)
        elif isinstance(n, (ast.Import, ast.ImportFrom)):
            for a in n.names:
                out.add((a.asname or a.name).split(".")[0])
        for ch in ast.iter_child_nodes(n):
            visit(ch)
    for s in body:
        visit(s)
    return out


class LoopMixin:
    def loop_spec(self, node):
        if self.cur is None:
            return {"inv": [], "modifies": [], "decreases": None}, None
        fnnode = self.cur_fn
        k = None
        for i, l in enumerate(loops_of(fnnode)):
            if l is node:
                k = i
        if k is None:
            # loop of an inlined callee: invariant looked up under "<callee qualname>#ordinal"
            return {"inv": [], "modifies": [], "decreases": None}, None
        return self.cur.loop(k), k

    def iter_source(self, st, v):
        """-> (z3 Seq(Val), elem hint, mode) for an iterable value"""
        v = self.concretize(st, v)
        if v.k == "list":
            return self.seq_of(st, v), v.h, None
        if v.k == "seq":
            return v.t, v.h, None
        if v.k == "tuple":
            return None, None, v.x
        if v.k == "dictview":
            d, mode = v.t
            keys = self.dict_keys_seq(st, d)
            return keys, None, (mode, d)
        if v.k == "dict":
            return self.dict_keys_seq(st, v), None, ("keys", v)
        if v.k == "zip":
            return None, None, ("zip", v.x)
        if v.k == "obj" and v.h in ("LineStream",):
            self.assumptions.add("iterating a binary input stream yields an arbitrary finite sequence of bytes lines")
            return self.fresh("lines", SeqV), "bytes", None
        raise Unsupported("iteration over " + v.k)

    def dict_keys_seq(self, st, d):
        """an arbitrary duplicate-free enumeration of the keys (E1: the iteration order is not relied on)"""
        dom = self.dom_of(st, d)
        key = ("$keys", str(z3.simplify(dom)))
        ks = self.fresh("keys", SeqV)
        k = z3.Const("k!keys", Val)
        i = z3.Int("i!keys")
        j = z3.Int("j!keys")
        st.assume(z3.ForAll([k], z3.Select(dom, k) == z3.Contains(ks, z3.Unit(k)), patterns=[z3.Select(dom, k)]))
        st.assume(z3.ForAll([i, j], z3.Implies(z3.And(0 <= i, i < j, j < z3.Length(ks)), ks[i] != ks[j]),
                            patterns=[z3.MultiPattern(ks[i], ks[j])]))
        st.assume(z3.ForAll([i], z3.Implies(z3.And(0 <= i, i < z3.Length(ks)), z3.Select(dom, ks[i])), patterns=[ks[i]]))
        st.assume(z3.Length(ks) == self.set_card(dom))
        return ks

    def ex_For(self, s, st):
        def k(s2, it):
            sq, hint, mode = self.iter_source(s2, it)
            if sq is None and isinstance(mode, list):
                return self.unroll(s, s2, mode)
            if sq is None and mode[0] == "zip":
                return self.for_zip(s, s2, mode[1])
            return self.for_seq(s, s2, sq, hint, mode)
        return self.lift(self.ev(s.iter, st), k)

    def unroll(self, s, st, items):
        outs = [Outcome(st, "normal")]
        done = []
        for x in items:
            nxt = []
            for o in outs:
                for ao in self.assign(o.st, s.target, x):
                    if ao.kind != "normal":
                        done.append(ao)
                        continue
                    for bo in self.exec_block(s.body, ao.st):
                        if bo.kind in ("normal", "continue"):
                            nxt.append(Outcome(bo.st, "normal"))
                        elif bo.kind == "break":
                            done.append(Outcome(bo.st, "normal"))
                        else:
                            done.append(bo)
            outs = nxt
        fin = []
        for o in outs:
            fin.extend(self.exec_block(s.orelse, o.st) if s.orelse else [o])
        return fin + done

    def for_zip(self, s, st, lists):
        """for a, b in zip(xs, ys): iterate over index i < min(len)"""
        seqs = []
        for l in lists:
            l = self.concretize(st, l)
            if l.k not in ("list", "seq"):
                raise Unsupported("zip over " + l.k)
            seqs.append((l.t if l.k == "seq" else self.seq_of(st, l), l.h))
        n = seqs[0][0]
        ln = z3.Length(seqs[0][0])
        for sq, _ in seqs[1:]:
            ln = z3.If(z3.Length(sq) < ln, z3.Length(sq), ln)
        return self.for_seq(s, st, None, None, ("zip", seqs, ln))

    def elem_value(self, st, sq, hint, mode, i):
        if mode is not None and mode[0] == "zip":
            items = []
            for q, h in mode[1]:
                items.append(self.from_val(st, q[i], h) if h else SV("val", q[i]))
            return SV("tuple", None, x=items)
        el = sq[i]
        if mode is None:
            return self.from_val(st, el, hint) if hint else SV("val", el)
        kind, d = mode
        keysv = SV("val", el)
        if d.h and d.h.startswith("str->"):
            keysv = self.from_val(st, el, "str")       # declared key type
        if kind == "keys":
            return keysv
        mp = self.map_of(st, d)
        vh = self.key_hint(d, SV("val", el))
        val = self.from_val(st, z3.Select(mp, el), vh) if vh else SV("val", z3.Select(mp, el))
        if kind == "values":
            return val
        return SV("tuple", None, x=[keysv, val])

    def havoc_locals(self, st, names, spec):
        decl = dict(spec.get("locals", {})) if isinstance(spec, dict) else {}
        if self.cur is not None and st.fid == getattr(self, "root_fid", None):
            order = self.local_order()
            for alias, k in self.cur.extra.get("aliases", {}).items():
                if alias in decl and k < len(order):
                    decl[order[k]] = decl.pop(alias)
        for name in sorted(set(names) | set(decl)):
            if name in decl and name not in names:
                cur = st.frames[st.fid].get(name)
                if cur is not None and cur.k in ("list", "dict") and decl[name].startswith(cur.k):
                    # not reassigned in the loop: same object, declared element type
                    nv = SP_SV(cur.k, cur.t, h=(decl[name][len(cur.k) + 1:-1] if "[" in decl[name] else None), x=cur.x)
                    st.frames[st.fid][name] = nv
                    continue
            cur = None
            f = st.fid
            if name in st.frames[f]:
                cur = st.frames[f][name]
            if name in decl:
                st.frames[f][name] = self.sym(st, "lv_" + name, decl[name])
            elif cur is None:
                continue
            elif cur.k in ("int", "bool", "str", "bytes", "float"):
                st.frames[f][name] = self.sym(st, "lv_" + name, cur.k)
            elif cur.k in ("list", "dict") :
                hint = cur.k + ("[%s]" % cur.h if cur.h else "")
                nv = self.sym(st, "lv_" + name, hint)
                nv.x = cur.x
                st.frames[f][name] = nv
            elif cur.k == "inst" and cur.x is None:
                st.frames[f][name] = self.sym(st, "lv_" + name, cur.h)
            elif cur.k in ("func", "module", "ext", "builtin", "cls") :
                pass
            else:
                st.frames[f][name] = SV("val", self.fresh("lv_" + name, Val), h=cur.h if cur.k == "val" else None)

    def local_order(self):
        """names of the verified function's locals in order of first assignment (aliases are ordinals into this list, so
        renaming a local does not touch any contract)"""
        fn = self.cur_fn
        cached = getattr(self, "_local_order", None)
        if cached and cached[0] is fn:
            return cached[1]
        order = []

        def tgt(t):
            if isinstance(t, ast.Name):
                if t.id not in order:
                    order.append(t.id)
            elif isinstance(t, (ast.Tuple, ast.List)):
                for x in t.elts:
                    tgt(x)

        def visit(n):
            if isinstance(n, (ast.FunctionDef, ast.Lambda, ast.ClassDef)):
                if isinstance(n, ast.FunctionDef) and n.name not in order:
                    order.append(n.name)
                return
            if isinstance(n, ast.Assign):
                for t in n.targets:
                    tgt(t)
            elif isinstance(n, (ast.AugAssign, ast.AnnAssign, ast.For)):
                tgt(n.target)
            elif isinstance(n, ast.With):
                for it in n.items:
                    if it.optional_vars is not None:
                        tgt(it.optional_vars)
            elif isinstance(n, ast.ExceptHandler) and n.name and n.name not in order:
                order.append(n.name)
            for ch in ast.iter_child_nodes(n):
                visit(ch)
        for stmt in fn.body:
            visit(stmt)
        self._local_order = (fn, order)
        return order

    def alias_values(self, st):
        out = {}
        if self.cur is None:
            return out
        order = self.local_order()
        fr = st.frames.get(self.root_fid, {})
        for alias, k in self.cur.extra.get("aliases", {}).items():
            if k < len(order) and order[k] in fr and fr[order[k]] is not None:
                out[alias] = fr[order[k]]
        return out

    def inv_eval(self, st, spec, extra, label_prefix, emit):
        """emit/assume the loop invariant in state st (extra: special names)"""
        fid = st.fid
        extra = dict(extra)
        if fid == getattr(self, "root_fid", None):
            extra.update(self.alias_values(st))
        saved = {}
        for k2, v in extra.items():
            saved[k2] = st.frames[fid].get(k2)
            st.frames[fid][k2] = v
        try:
            for label, src0, props in spec["inv"]:
                for sub, src in (split_conj(src0) if emit else [("", src0)]):
                    g = self.spec_eval(st, src, fid, st.heap0, st.entry_frame, {})
                    if emit:
                        self.emit(st, "%s:%s%s" % (label_prefix, label, sub), g, "inv", props)
                    else:
                        st.assume(g)
        finally:
            for k2, v in saved.items():
                if v is None:
                    st.frames[fid].pop(k2, None)
                else:
                    st.frames[fid][k2] = v

    def for_seq(self, s, st, sq, hint, mode):
        spec, k = self.loop_spec(s)
        tag = "inv#%s" % (k if k is not None else "?")
        if mode is not None and mode[0] == "zip":
            n = mode[2]
        else:
            n = z3.Length(sq)
        sqv = SV("seq", sq, h=hint) if sq is not None else SV("none")
        # ghost bindings at loop entry (e.g. remembering the enumeration that is being iterated)
        for gname, gsrc in spec.get("ghost_init", []):
            saved_s = st.frames[st.fid].get("_s")
            st.frames[st.fid]["_s"] = sqv
            st.frames[st.fid][gname] = self.spec_value(st, gsrc, st.fid, st.heap0, st.entry_frame, {})
            if saved_s is None:
                st.frames[st.fid].pop("_s", None)
        # 1. invariant holds initially
        empty_done = SV("seq", z3.Empty(SeqV), h=hint)
        self.inv_eval(st, spec, {"_i": SV("int", z3.IntVal(0)), "_s": sqv, "_done": empty_done}, tag + ":init", True)
        # 2. arbitrary iteration
        body_names = assigned_names(s.body) | assigned_names([ast.Assign(targets=[s.target], value=ast.Constant(value=None))])
        loop_heap0 = dict(st.heap)
        it = st.copy()
        self.havoc(it, spec["modifies"], it.fid)
        self.havoc_locals(it, body_names, spec)
        a1 = self.fresh("alloc", I)
        it.assume(a1 >= self.harr(it, "$alloc"))
        it.heap["$alloc"] = a1
        ex = it.copy()     # exit state (shares the havocked symbols)
        i = self.fresh("i", I)
        it.assume(i >= 0)
        it.assume(i < n)
        # decomposition of the iterated sequence (DESIGN 3.1): _s == _done ++ [element] ++ rest, |_done| == i
        done = self.fresh("done", SeqV)
        rest = self.fresh("rest", SeqV)
        if sq is not None:
            it.assume(sq == z3.Concat(done, z3.Unit(sq[i]), rest))
            it.assume(z3.Length(done) == i)
            if spec.get("membership_fact"):
                # a consequence of the decomposition, stated on request (loop spec `membership_fact=True`) so that the membership term
                # exists for triggers; not added by default: it slows the sequence solver down considerably elsewhere
                it.assume(z3.Contains(sq, z3.Unit(sq[i])))
        if mode is not None and mode[0] in ("items", "keys", "values"):
            it.assume(z3.Select(self.dom_of(it, mode[1]), sq[i]))      # ground instance of the enumeration axiom
        done_sv = SV("seq", done, h=hint)
        done_next = SV("seq", z3.Concat(done, z3.Unit(sq[i])) if sq is not None else done, h=hint)
        self.inv_eval(it, spec, {"_i": SV("int", i), "_s": sqv, "_done": done_sv}, tag, False)
        it.trail.append("loop#%s:iter" % k)
        it.writes = []
        outs = []
        it.frames[it.fid]["_done"] = done_sv      # visible to ghost updates attached to call sites in the body
        el = self.elem_value(it, sq, hint, mode, i)
        for ao in self.assign(it, s.target, el):
            if ao.kind != "normal":
                outs.append(ao)
                continue
            # ghost code at the start of every iteration: the declarative specification written as a fold over the elements
            # (`_x` is the current element); the invariant then ties the code's decisions to it
            if spec.get("ghost_step"):
                gs = ao.st
                gs.frames[gs.fid]["_x"] = el if el.k != "tuple" else SV("val", sq[i]) if sq is not None else el
                for gname, gsrc in spec["ghost_step"]:
                    gs.frames[gs.fid][gname] = self.spec_value(gs, gsrc, gs.fid, gs.heap0, gs.entry_frame, {})
            for bo in self.exec_block(s.body, ao.st):
                if bo.kind in ("normal", "continue"):
                    self.inv_eval(bo.st, spec, {"_i": SV("int", i + 1), "_s": sqv, "_done": done_next}, tag + ":keep", True)
                    self.loop_frame(bo.st, spec, k, loop_heap0)
                elif bo.kind == "break":
                    self.loop_frame(bo.st, spec, k, loop_heap0)
                    bo.st.writes = st.writes + self.summary_writes(spec)
                    outs.append(Outcome(bo.st, "normal"))
                else:
                    bo.st.writes = st.writes + self.summary_writes(spec)
                    outs.append(bo)
        # 3. exit: invariant at i == n
        if isinstance(s.target, ast.Name) and sq is not None and s.target.id not in ex.frames[ex.fid]:
            # after the loop the target still holds the last element (Python semantics); with an empty sequence it would be
            # unbound and any later use an UnboundLocalError -- such a use is reported as outside the subset only then
            lastv = sq[n - 1]
            ex.frames[ex.fid][s.target.id] = self.elem_value(ex, sq, hint, mode, n - 1) if True else SV("val", lastv)
        self.inv_eval(ex, spec, {"_i": SV("int", n), "_s": sqv, "_done": sqv}, tag, False)
        ex.trail.append("loop#%s:exit" % k)
        ex.writes = st.writes + self.summary_writes(spec)
        if self.feasible(ex):
            outs.extend(self.exec_block(s.orelse, ex) if s.orelse else [Outcome(ex, "normal")])
        return outs

    def summary_writes(self, spec):
        return [("$loop", tuple(spec["modifies"]))]

    def loop_frame(self, st, spec, k, heap_at_entry):
        """every heap write of the body hits a location the loop's modifies clause names"""
        allowed = spec["modifies"]
        self.frame_obligations(st, allowed, "loopframe#%s" % k, st.writes, st.fid)

    def ex_While(self, s, st):
        spec, k = self.loop_spec(s)
        tag = "inv#%s" % (k if k is not None else "?")
        self.inv_eval(st, spec, {}, tag + ":init", True)
        body_names = assigned_names(s.body)
        it = st.copy()
        self.havoc(it, spec["modifies"], it.fid)
        self.havoc_locals(it, body_names, spec)
        a1 = self.fresh("alloc", I)
        it.assume(a1 >= self.harr(it, "$alloc"))
        it.heap["$alloc"] = a1
        self.inv_eval(it, spec, {}, tag, False)
        it.writes = []
        outs = []
        for r in self.ev(s.test, it):
            if r.exc is not None:
                outs.append(Outcome(r.st, "raise", r.exc))
                continue
            for s2, b in self.fork(r.st, self.truth(r.st, r.val)):
                if not b:
                    s2.trail.append("loop#%s:exit" % k)
                    s2.writes = st.writes + self.summary_writes(spec)
                    outs.extend(self.exec_block(s.orelse, s2) if s.orelse else [Outcome(s2, "normal")])
                    continue
                s2.trail.append("loop#%s:iter" % k)
                m0 = None
                if spec["decreases"]:
                    m0 = self.spec_value(s2, spec["decreases"], s2.fid, s2.heap0, s2.entry_frame, {}).t
                for bo in self.exec_block(s.body, s2):
                    if bo.kind in ("normal", "continue"):
                        self.inv_eval(bo.st, spec, {}, tag + ":keep", True)
                        self.loop_frame(bo.st, spec, k, None)
                        if m0 is not None:
                            m1 = self.spec_value(bo.st, spec["decreases"], bo.st.fid, bo.st.heap0, bo.st.entry_frame, {}).t
                            self.emit(bo.st, "decreases#%s" % k, z3.And(m1 < m0, m0 >= 0), "decreases")
                    elif bo.kind == "break":
                        bo.st.writes = st.writes + self.summary_writes(spec)
                        outs.append(Outcome(bo.st, "normal"))
                    else:
                        bo.st.writes = st.writes + self.summary_writes(spec)
                        outs.append(bo)
                if not spec["decreases"] and self.cur is not None and not self.cur.extra.get("nonterminating_ok"):
                    self.emit(s2, "decreases#%s:missing" % k, z3.BoolVal(False), "decreases")
        return outs

    # ------------------------------------------------------------------ frames
    def frame_obligations(self, st, allowed, label, writes, fid):
        """each write (component, ref) must be to a fresh object or named by a designator"""
        if "*" in allowed:
            return
        a0 = st.heap0.get("$alloc")
        refs = {}      # component -> [z3 ref terms allowed]
        whole = set()
        for d in allowed:
            d = d.strip()
            if d.startswith("#"):
                whole.add(d.split("[")[0])
                continue
            if d.startswith("field:"):
                whole.add(d[6:])
                continue
            if d.startswith("global:"):
                whole.add("@" + d[7:])
                continue
            if d.startswith("seq(") or d.startswith("dict("):
                inner = d[d.index("(") + 1:-1]
                v = self.concretize(st, self.spec_value(st, inner, fid, st.heap0, st.entry_frame, {}))
                # designators are evaluated in the entry state (old)
                ref = Val.rv(v.t) if v.k == "val" else v.t
                for comp in (("$seq",) if d.startswith("seq(") else ("$dom", "$map")):
                    refs.setdefault(comp, []).append(ref)
                continue
            base, attr = d.rsplit(".", 1)
            v = self.concretize(st, self.spec_value(st, base, fid, st.heap0, st.entry_frame, {}))
            ref = Val.rv(v.t) if v.k == "val" else v.t
            refs.setdefault(attr, []).append(ref)
        seen = set()
        for comp, ref in writes:
            if comp == "$loop":
                for d in ref:
                    if d not in allowed and "*" not in allowed:
                        # loop modifies must be covered by function modifies (checked textually + by designator eval)
                        self.frame_designator_covered(st, d, allowed, refs, whole, label, fid)
                continue
            if comp in whole or comp.startswith("fattr:"):
                continue
            key = (comp, str(z3.simplify(ref)))
            if key in seen:
                continue
            seen.add(key)
            alts = [ref > a0] if a0 is not None else []
            alts += [ref == r for r in refs.get(comp, [])]
            goal = z3.Or(*alts) if alts else z3.BoolVal(False)
            g = z3.simplify(goal)
            if z3.is_true(g):
                continue
            self.emit(st, "%s:%s" % (label, comp), goal, "frame")

    def frame_designator_covered(self, st, d, allowed, refs, whole, label, fid):
        if d.startswith("#") or d.startswith("field:") or d.startswith("global:"):
            nm = d.split("[")[0] if d.startswith("#") else (d[6:] if d.startswith("field:") else "@" + d[7:])
            if nm not in whole:
                self.emit(st, "%s:%s" % (label, d), z3.BoolVal(False), "frame")
            return
        # location designators: evaluate in the *current* state and compare with allowed refs / freshness
        a0 = st.heap0.get("$alloc")
        if d.startswith("seq(") or d.startswith("dict("):
            inner = d[d.index("(") + 1:-1]
            comps = ("$seq",) if d.startswith("seq(") else ("$dom", "$map")
        else:
            inner, attr = d.rsplit(".", 1)
            comps = (attr,)
        try:
            v = self.concretize(st, self.spec_value(st, inner, fid, st.heap0, st.entry_frame, {}))
        except Unsupported:
            return
        ref = Val.rv(v.t) if v.k == "val" else v.t
        for comp in comps:
            alts = ([ref > a0] if a0 is not None else []) + [ref == r for r in refs.get(comp, [])]
            self.emit(st, "%s:%s" % (label, d), z3.Or(*alts) if alts else z3.BoolVal(False), "frame")

    # ------------------------------------------------------------------ verify one function
    def verify(self, key):
        """generate the obligations of one contracted function -> list[Ob]"""
        c = SP.CONTRACTS[key]
        self.cur = c
        self.obs = []
        self._ordinals = {}
        self._ordcount = {}
        fn, cls, encl = self.fe.find(c.path, c.qualname)
        self.cur_fn = fn
        st = State()
        fid = st.new_frame(None, c.path)
        st.fid = fid
        st.frames[fid]["$fn"] = fn
        a = fn.args
        fr = st.frames[fid]
        fr["$cls"] = cls.name if cls is not None else None
        names = [p.arg for p in a.posonlyargs + a.args + a.kwonlyargs]
        self.param_names = names + ([a.vararg.arg] if a.vararg else []) + ([a.kwarg.arg] if a.kwarg else [])
        st.assume(self.harr(st, "$alloc") >= 0)
        if c.extra.get("handling"):
            # the function is specified for calls made while an exception is being handled (`handling_exception()` in its requires):
            # an arbitrary exception object is the current one at entry
            st.exc_stack.append(self.sym(st, "handled_exc", "Exc"))
        # the caller may or may not be handling an exception when it calls the function: sys.exc_info() with no handler of the function's
        # own active returns either (None, None, None) or an arbitrary exception object that existed at entry (libx: sys.exc_info)
        self.ambient_exc = self.sym(st, "ambient_exc", "Exc")
        fk = self.func_kind(fn)
        for i, p in enumerate(names):
            hint = c.types.get(p)
            if hint is None and i == 0 and cls is not None and fk not in ("staticmethod",):
                hint = "cls" if (fk == "classmethod" or p in ("cls", "klass", "_class")) and fk == "classmethod" else cls.name
            fr[p] = self.sym(st, p, hint)
            if hint == "cls" and cls is not None:
                fr[p] = SV("cls", z3.IntVal(self._register_class(cls.name)), h=cls.name)
        if a.vararg:
            fr[a.vararg.arg] = self.sym(st, a.vararg.arg, c.types.get(a.vararg.arg, "tuple"))
        if a.kwarg:
            fr[a.kwarg.arg] = self.sym(st, a.kwarg.arg, c.types.get(a.kwarg.arg, "dict"))
            # Python call binding: the **kwargs dict never holds a key naming one of the function's own parameters
            kd = self.dom_of(st, fr[a.kwarg.arg])
            for p in [x.arg for x in a.args + a.kwonlyargs]:
                st.assume(z3.Not(z3.Select(kd, Val.StrV(z3.StringVal(p)))))
        # closure variables of nested functions are declared in the contract as `free={name: hint}`
        for name, hint in c.extra.get("free", {}).items():
            fr[name] = self.sym(st, name, hint)
        self.root_fid = fid
        self.wf_assume(st, private=[fr[a.kwarg.arg].t] if a.kwarg else [])
        for gname, ghint in c.extra.get("ghosts", {}).items():
            fr[gname] = self.sym(st, "gh_" + gname, ghint)
        for gname, gsrc in c.extra.get("ghost_defaults", {}).items():
            fr[gname] = self.spec_value(st, gsrc, fid, st.heap, None, {})
        for label, src, props in c.requires + c.assumes:
            st.assume(self.spec_eval(st, src, fid, st.heap, None, {}))
        for label, src, props in c.assumes:
            self.assumptions.add("assumed at %s: %s" % (c.qualname, label))
        st.heap0 = dict(st.heap)
        st.entry_frame = dict(fr)
        self.entry_symbols = set()
        for v0 in fr.values():
            if isinstance(v0, SP_SV) and isinstance(v0.t, z3.ExprRef) and z3.is_const(v0.t):
                self.entry_symbols.add(v0.t.decl().name())
        self.vacuous_paths = []
        # ghost code at entry (e.g. an ILogger.write implementation records "this write" itself)
        for comp, gsrc in c.extra.get("ghost_entry", []):
            gv = self.spec_value(st, gsrc, fid, st.heap0, st.entry_frame, {})
            self.harr(st, comp)
            st.heap[comp] = gv.t
        if c.decreases:
            st.snap["$measure"] = self.spec_value(st, c.decreases, fid, st.heap0, st.entry_frame, {}).t
        self.vacuous = not self.feasible(st)
        if c.at_yield and not self.is_generator(fn):
            raise Unsupported("the contract has at_yield clauses but the function is no longer a generator")
        if any(self.dec_name(d) == "exclusively" for d in fn.decorator_list) and names:
            # the method runs inside `with self._lock:` of the exclusively wrapper (verified separately): ghost permission held
            self.assumptions.add("threading.Lock: mutual exclusion; @exclusively methods run holding self._lock (wrapper verified under its own contract)")
            st.held.append(self.hget(st, "_lock", fr[names[0]].t))
        if self.is_generator(fn) and fk == "contextmanager":
            st.yield_handler = self.cm_body_handler(c, fid)
            outs = self.exec_block(fn.body, st)
        elif self.is_generator(fn):
            outs = self.exec_generator(fn, st, c)
        else:
            outs = self.exec_block(fn.body, st)
        self.stats["paths"] += len(outs)
        if c.ensures and outs and not any(o.kind in ("normal", "return") for o in outs) and not c.extra.get("never_returns") \
                and not c.extra.get("nonterminating_ok"):
            # the contract promises something about normal returns but no path returns: its postconditions would be vacuous
            # (typically a call that cannot bind, hidden behind a catch-all raises clause)
            self.vacuous_paths.append("no path of %s returns normally although it has postconditions" % c.qualname)
        for o in outs:
            self.check_exit(c, o, fid)
        obs = self.obs
        self.cur = None
        return obs

    def cm_body_handler(self, c, fid):
        """verifying a @contextmanager function: at its yield, check the at_yield clauses, then let an arbitrary
        with-body run (interface WithBody: havoc under the rely), and resume normally or by a thrown exception"""
        def handler(st, val):
            for label, src, props in c.at_yield:
                g = self.spec_eval(st, src, fid, st.heap0, st.entry_frame, {"yielded": val})
                self.emit(st, "yield:" + label, g, "post", props)
            st.yield_handler = None
            body = SV("obj", self.alloc(st, "function"), h="WithBody")
            return self.call_opaque(st, body, "WithBody", "", [], {}, None, None)
        return handler

    def lemma_obligations(self, name):
        """property-level lemmas over contract shapes: builder(engine) -> [(label, [hyps], goal)]"""
        from .engine import Ob
        lem = SP.LEMMAS[name]
        self.cur = None
        out = []
        for label, hyps, goal in lem.builder(self):
            out.append(Ob("lemma::%s::%s" % (name, label), list(hyps), goal, "lemma", lem.props, fn="lemma::" + name))
        return out

    def closure_obligations(self, st, c, fid):
        """nested functions with their own contract declare their closure variables (`free={name: type}`) as assumptions; the enclosing
        function, at its normal exits, owes them: every such name that is a local of the enclosing function is bound, to a value of
        the declared type"""
        fn = self.cur_fn
        if not isinstance(fn, (ast.FunctionDef, ast.AsyncFunctionDef)):
            return
        locals_ = assigned_names(fn.body) | set(self.param_names)
        for k2, c2 in SP.CONTRACTS.items():
            if c2.path != c.path or not c2.qualname.startswith(c.qualname + ".") or "." in c2.qualname[len(c.qualname) + 1:]:
                continue
            if st.frames[fid].get(c2.qualname.split(".")[-1]) is None:
                continue        # the nested function was not defined on this path
            try:
                inner = self.fe.find(c2.path, c2.qualname)[0]
                used = {n.id for n in ast.walk(inner) if isinstance(n, ast.Name)}
            except KeyError:
                continue
            for name, hint in c2.extra.get("free", {}).items():
                if name not in used:
                    continue        # a specification variable, not a variable of the program
                if name not in locals_:
                    # not a local of the enclosing function: it must at least resolve as a global, or the inner function raises NameError
                    try:
                        self.module_global(st, c.path, name)
                    except Unsupported as ex:
                        if str(ex).startswith("unresolved name"):
                            self.emit(st, "closure:%s:%s (bound nowhere)" % (c2.qualname.split(".")[-1], name), z3.BoolVal(False), "post", c.props)
                    continue
                v0 = st.frames[fid].get(name)
                label = "closure:%s:%s" % (c2.qualname.split(".")[-1], name)
                if v0 is None:
                    self.emit(st, label + " (unbound in the enclosing function)", z3.BoolVal(False), "post", c.props)
                    continue
                if not isinstance(hint, str) or hint in ("Any", "val"):
                    continue
                try:
                    bv = box(self.heapify(st, v0)) if v0.k not in ("func", "bound", "builtin", "ext", "meth", "module") else None
                except (Unsupported, SpecError):
                    bv = None
                if bv is None:
                    continue
                s2 = State()
                s2.heap = dict(st.heap)
                s2.heap0 = st.heap0
                try:
                    self.from_val(s2, bv, hint)
                except (Unsupported, SpecError):
                    continue
                if s2.pc:
                    g = z3.simplify(z3.And(*s2.pc))
                    if not z3.is_true(g):
                        self.emit(st, label, g, "post", c.props)

    def check_exit(self, c, o, fid):
        st = o.st
        st.fid = fid
        # vacuity guard: a path that reaches an exit with an unsatisfiable path condition was made infeasible by assumptions
        # (callee postconditions, type facts) after its last branch -- every obligation on it would be proved vacuously
        if not self._sat(st, None):
            self.vacuous_paths.append("/".join(t for t in st.trail if not t.startswith(("in:", "out:"))))
        # in postconditions a parameter name denotes the argument object (its entry binding), even if the body rebinds it
        for pname in self.param_names:
            if pname in st.entry_frame:
                st.frames[fid][pname] = st.entry_frame[pname]
        if o.kind in ("break", "continue"):
            raise Unsupported("break/continue at function level")
        if o.kind in ("normal", "return"):
            val = o.val if o.kind == "return" else SV("none")
            for rs in c.raises or []:
                if rs.get("iff") and rs.get("when"):
                    g = z3.Not(self.spec_eval(st, rs["when"], fid, st.heap0, st.entry_frame, {}))
                    self.emit(st, "post:raises-when:%s" % rs.get("cls"), g, "post")
            self.closure_obligations(st, c, fid)
            rt = c.returns
            if val.k == "none" and isinstance(rt, str) and rt not in ("none", "Any", "val") and not rt.startswith("Opt["):
                # the function returns None here although its contract declares a (non-optional) result type: that alone is the
                # violation; the postconditions, which talk about the result's fields, are not evaluated on this path
                self.emit(st, "post:result-type (returns None, declared %s)" % rt, z3.BoolVal(False), "post", c.props)
                self.frame_obligations(st, c.modifies, "frame", st.writes, fid)
                return
            for label, src, props in c.ensures:
                for sub, ssrc in split_conj(src):
                    g = self.spec_eval(st, ssrc, fid, st.heap0, st.entry_frame, {"result": val})
                    self.emit(st, "post:" + label + sub, g, "post", props)
        else:
            exc = o.val
            if not c.raises:
                self.emit(st, "noraise", z3.BoolVal(False), "noraise", c.props,
                          info={"exc_class": str(z3.simplify(clsof(exc.t))) if exc.k in REFKINDS else "?"})
            else:
                alts = []
                earlier = []
                for rs in c.raises:
                    cname = rs.get("cls") or "BaseException"
                    cid = self._register_class(cname)
                    m0 = issub(clsof(exc.t), cid) if exc.k in REFKINDS else z3.BoolVal(False)
                    # ordered clauses: an exception is governed by the first clause whose class matches
                    if rs.get("when"):
                        m0 = z3.And(m0, self.spec_eval(st, rs["when"], fid, st.heap0, st.entry_frame, {}))
                    m = z3.And(m0, *[z3.Not(x) for x in earlier]) if earlier else m0
                    earlier.append(m0)
                    if rs.get("same"):
                        pv = self.spec_value(st, rs["same"], fid, st.heap0, st.entry_frame, {})
                        m = box(exc) == box(pv)
                    alts.append(m)
                    for item in SP._labelled(rs.get("ensures", []), "rpost"):
                        g = self.spec_eval(st, item[1], fid, st.heap0, st.entry_frame, {"exc": exc})
                        self.emit(st, "raise-post:%s:%s" % (cname, item[0]), z3.Implies(m, g), "post", item[2])
                self.emit(st, "raises-allowed", z3.Or(*alts), "noraise", c.props)
        self.frame_obligations(st, c.modifies, "frame", st.writes, fid)
