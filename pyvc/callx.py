"""Calls: argument evaluation, Python call binding, contract application, inlining, opaque callees."""
import ast
import os
import re
import sys
import z3

from .sorts import (Val, Ev, SeqV, SeqE, SetV, MapV, I, B, S, clsof, issub, cls_module, cls_name,
                    SV, REFKINDS, box, Unsupported, SpecError)
from . import spec as SP
from .engine import Res, State, NoneV, Ob, Outcome

MAX_INLINE = 6


class CallMixin:
    # ------------------------------------------------------------------ call expression
    def ev_Call(self, e, st):
        if st.spec:
            return self.spec_call(e, st)
        # special syntactic forms
        if isinstance(e.func, ast.Name) and e.func.id == "super":
            raise Unsupported("super()")
        pos_exprs = []
        star_expr = None
        for a in e.args:
            if isinstance(a, ast.Starred):
                if star_expr is not None:
                    raise Unsupported("two *args at a call")
                star_expr = a.value
            else:
                if star_expr is not None:
                    raise Unsupported("positional after *args")
                pos_exprs.append(a)
        kw_names = []
        kw_exprs = []
        starkw_expr = None
        for kw in e.keywords:
            if kw.arg is None:
                if starkw_expr is not None:
                    raise Unsupported("two **kwargs at a call")
                starkw_expr = kw.value
            else:
                kw_names.append(kw.arg)
                kw_exprs.append(kw.value)
        exprs = [e.func] + pos_exprs + ([star_expr] if star_expr is not None else []) + kw_exprs + \
                ([starkw_expr] if starkw_expr is not None else [])

        def k(s, vs):
            f = vs[0]
            i = 1
            pos = vs[i:i + len(pos_exprs)]
            i += len(pos_exprs)
            star = None
            if star_expr is not None:
                star = self.concretize(s, vs[i])
                i += 1
                if star.k == "tuple":
                    pos = pos + list(star.x)
                    star = None
                elif star.k == "val":
                    # f(*x) for a dynamically typed x: TypeError unless x is a tuple object
                    is_tup = z3.And(Val.is_RefV(star.t), clsof(Val.rv(star.t)) == self.ct.id("tuple"))
                    outs = []
                    for s2, b in self.fork(s, is_tup, "star:tuple"):
                        if not b:
                            outs.append(self.raise_new(s2, "TypeError"))
                            continue
                        st_ = SV("list", Val.rv(star.t), x="tuple")
                        kw_ = dict(zip(kw_names, vs[i:i + len(kw_exprs)]))
                        skw = self.concretize(s2, vs[i + len(kw_exprs)]) if starkw_expr is not None else None
                        outs.extend(self.call(s2, f, pos, kw_, st_, skw, node=e))
                    return outs
            kw = dict(zip(kw_names, vs[i:i + len(kw_exprs)]))
            i += len(kw_exprs)
            starkw = None
            if starkw_expr is not None:
                starkw = self.concretize(s, vs[i])
            return self.call(s, f, pos, kw, star, starkw, node=e)
        return self.chain(st, exprs, k)

    def call(self, st, f, pos, kw, star=None, starkw=None, node=None):
        f = self.concretize(st, f)
        k = f.k
        if k == "bound":
            return self.call(st, f.t, [f.x] + list(pos), kw, star, starkw, node)
        if k == "func":
            return self.call_func(st, f, pos, kw, star, starkw, node)
        if k == "meth":
            recv, name = f.t
            return self.call_method(st, recv, name, pos, kw, star, starkw, node)
        if k == "builtin":
            return self.call_builtin(st, f.t, pos, kw, star, starkw, node)
        if k == "ext":
            return self.call_ext(st, f.t, pos, kw, star, starkw, node)
        if k == "cls":
            return self.call_class(st, f, pos, kw, star, starkw, node)
        if k == "obj":
            if f.h == "$func":
                fv = self.func_of_obj(st, f)
                if fv is not None:
                    return self.call(st, fv, pos, kw, star, starkw, node)
                return self.call_opaque(st, f, "Opaque", "", pos, kw, star, starkw)
            return self.call_opaque(st, f, f.h or "Opaque", "", pos, kw, star, starkw)
        if k == "inst":
            mem = self.find_member(f.h, "__call__") if f.h else None
            if mem is not None:
                p, c, n = mem
                fn = SV("func", n, x={"module": p, "env": None, "cls": c, "qual": c + ".__call__"})
                return self.call(st, fn, [f] + list(pos), kw, star, starkw, node)
            raise Unsupported("call of instance of %s" % f.h)
        if k == "val":
            hint = f.h
            role = "Opaque"
            if hint and hint.startswith("Opt[role:"):
                role = hint[9:-1]
            return self.may_raise(st, Val.is_RefV(f.t), "TypeError",
                                  lambda s: self.call_opaque(s, SV("obj", Val.rv(f.t), h=role), role, "", pos, kw, star, starkw))
        if k == "none":
            return [self.raise_new(st, "TypeError")]
        raise Unsupported("call of " + k)

    def func_of_obj(self, st, f):
        tab = st.snap.get("$funcs", {})
        t = z3.simplify(f.t)
        for r, (k2, v2) in tab.items():
            if z3.eq(z3.simplify(r), t):
                return v2
        return None

    # ------------------------------------------------------------------ repo functions
    def contract_for(self, f):
        x = f.x
        if not isinstance(f.t, ast.FunctionDef):
            return None
        qual = x.get("qual")
        key = "%s::%s" % (x["module"], qual)
        return SP.CONTRACTS.get(key)

    def call_func(self, st, f, pos, kw, star, starkw, node):
        fn = f.t
        if isinstance(fn, ast.Lambda):
            return self.inline_call(st, f, pos, kw, star, starkw)
        c = self.contract_for(f)
        # decorators
        decs = [self.dec_name(d) for d in fn.decorator_list]
        if "contextmanager" in decs:
            bound = self.bind(st, fn, f, pos, kw, star, starkw)
            out = []
            for r in bound:
                if r.exc is not None:
                    out.append(r)
                else:
                    out.append(Res(r.st, SV("ctxmgr", f, x=r.val)))
            return out
        if "exclusively" in decs and not (c is not None and not c.inline):
            return self.call_exclusively(st, f, pos, kw, star, starkw)
        if self.is_generator(fn) and (c is None or c.inline):
            raise Unsupported("call of generator function %s without contract" % fn.name)
        if c is not None and not c.inline and not (self.cur is not None and self.cur is c and False):
            return self.apply_contract(st, c, fn, f, pos, kw, star, starkw, node)
        return self.inline_call(st, f, pos, kw, star, starkw)

    def dec_name(self, d):
        if isinstance(d, ast.Call):
            d = d.func
        if isinstance(d, ast.Name):
            return d.id
        if isinstance(d, ast.Attribute):
            return d.attr
        return None

    def is_generator(self, fn):
        for n in self.walk_own(fn):
            if isinstance(n, (ast.Yield, ast.YieldFrom)):
                return True
        return False

    def walk_own(self, fn):
        """nodes of a function body, not descending into nested defs/lambdas"""
        stack = list(fn.body) if isinstance(fn.body, list) else [fn.body]
        while stack:
            n = stack.pop()
            yield n
            for ch in ast.iter_child_nodes(n):
                if isinstance(ch, (ast.FunctionDef, ast.AsyncFunctionDef, ast.Lambda, ast.ClassDef)):
                    continue
                stack.append(ch)

    def bind(self, st, fn, f, pos, kw, star, starkw):
        """Python call binding -> [Res(val=frame dict) | Res(exc=TypeError)] (may fork on **dict keys)"""
        a = fn.args
        params = [p.arg for p in a.posonlyargs] + [p.arg for p in a.args]
        npos = len(a.posonlyargs)
        defaults = dict(zip(params[len(params) - len(a.defaults):], a.defaults))
        kwonly = [p.arg for p in a.kwonlyargs]
        kwdefaults = {p.arg: d for p, d in zip(a.kwonlyargs, a.kw_defaults) if d is not None}
        frame = {}
        pos = list(pos)
        kw = dict(kw)
        # positional
        n = min(len(pos), len(params))
        for p, v in zip(params[:n], pos[:n]):
            frame[p] = v
        extra = pos[n:]
        if extra and a.vararg is None:
            return [self.raise_new(st, "TypeError")]
        if star is not None:
            if a.vararg is None or len(pos) < len(params):
                raise Unsupported("dynamic *args bound to named parameters of %s" % getattr(fn, "name", "lambda"))
        if a.vararg is not None:
            sq = self.mkseq([box(self.heapify(st, v)) for v in extra])
            if star is not None:
                sq = z3.Concat(sq, self.seq_of(st, star)) if extra else self.seq_of(st, star)
            frame[a.vararg.arg] = self.new_tuple_obj(st, sq)
        # explicit keywords
        rest_kw = {}
        for name, v in kw.items():
            if name in params[npos:] or name in kwonly:
                if name in frame:
                    return [self.raise_new(st, "TypeError")]
                frame[name] = v
            elif a.kwarg is not None:
                rest_kw[name] = v
            else:
                return [self.raise_new(st, "TypeError")]
        results = []
        named_open = [p for p in params[npos:] + kwonly if p not in frame]
        named_filled = [p for p in params[npos:] + kwonly if p in frame]

        def finish(s, frame, dyn_dom, dyn_map):
            # defaults
            fr = dict(frame)
            for p in params + kwonly:
                if p not in fr:
                    d = defaults.get(p, kwdefaults.get(p))
                    if d is None and p not in defaults and p not in kwdefaults:
                        return [self.raise_new(s, "TypeError")]
                    fr[p] = ("$default", d)
            if a.kwarg is not None:
                dom = z3.K(Val, z3.BoolVal(False)) if dyn_dom is None else dyn_dom
                mp = z3.K(Val, NoneV) if dyn_map is None else dyn_map
                for name, v in rest_kw.items():
                    kb = Val.StrV(z3.StringVal(name))
                    dom = z3.Store(dom, kb, z3.BoolVal(True))
                    mp = z3.Store(mp, kb, box(self.heapify(s, v)))
                fr[a.kwarg.arg] = self.new_dict(s, dom, mp, h=(starkw.h if starkw is not None else None))
            return [Res(s, fr)]

        if starkw is None:
            return finish(st, frame, None, None)
        if starkw.k != "dict":
            raise Unsupported("**kwargs of kind " + starkw.k)
        dom = self.dom_of(st, starkw)
        mp = self.map_of(st, starkw)
        # keys colliding with already-filled parameters or explicit keywords -> TypeError
        coll = [z3.Select(dom, Val.StrV(z3.StringVal(p))) for p in named_filled + list(rest_kw)]
        # non-string keys -> TypeError
        out = []
        clash = z3.Or(*coll) if coll else z3.BoolVal(False)
        for s2, b in self.fork(st, clash):
            if b:
                out.append(self.raise_new(s2, "TypeError"))
                continue
            # open named parameters may be provided by the dict
            fr = dict(frame)
            d2, m2 = dom, mp
            missing = []
            for p in named_open:
                kb = Val.StrV(z3.StringVal(p))
                has = z3.Select(dom, kb)
                if p in defaults or p in kwdefaults:
                    dflt = defaults.get(p, kwdefaults.get(p))
                    rs = self.with_frame_eval(s2, dflt, f)
                    dv = rs
                    fr[p] = SV("val", z3.If(has, z3.Select(mp, kb), box(self.heapify(s2, dv))),
                               h=self.key_hint(starkw, SV("str", z3.StringVal(p))))
                    if z3.is_false(z3.simplify(has)) or not self.feasible(s2, has):
                        fr[p] = dv
                else:
                    missing.append(has)
                    fr[p] = SV("val", z3.Select(mp, kb), h=self.key_hint(starkw, SV("str", z3.StringVal(p))))
                d2 = z3.Store(d2, kb, z3.BoolVal(False))
                m2 = z3.Store(m2, kb, NoneV)
            okm = z3.And(*missing) if missing else z3.BoolVal(True)
            for s3, b3 in self.fork(s2, okm):
                if not b3:
                    out.append(self.raise_new(s3, "TypeError"))
                    continue
                if a.kwarg is None:
                    empty = d2 == z3.K(Val, z3.BoolVal(False))
                    for s4, b4 in self.fork(s3, empty):
                        if b4:
                            out.extend(finish(s4, fr, None, None))
                        else:
                            out.append(self.raise_new(s4, "TypeError"))
                else:
                    out.extend(finish(s3, fr, d2, m2))
        return out

    def with_frame_eval(self, st, expr, f):
        """evaluate a default-value expression in the defining scope of f (constants / names only)"""
        saved = st.fid
        fid = st.new_frame(f.x.get("env"), f.x["module"])
        st.fid = fid
        try:
            rs = self.ev(expr, st)
        finally:
            st.fid = saved
        if len(rs) != 1 or rs[0].exc is not None:
            raise Unsupported("default value expression forks")
        return rs[0].val

    def resolve_defaults(self, st, frame, f):
        for p, v in list(frame.items()):
            if isinstance(v, tuple) and v[0] == "$default":
                frame[p] = self.with_frame_eval(st, v[1], f)
        return frame

    def inline_call(self, st, f, pos, kw, star, starkw):
        fn = f.t
        if st.depth >= MAX_INLINE:
            raise Unsupported("inlining depth exceeded at " + getattr(fn, "name", "lambda"))
        out = []
        for r in self.bind(st, fn, f, pos, kw, star, starkw):
            if r.exc is not None:
                out.append(r)
                continue
            s = r.st
            frame = self.resolve_defaults(s, r.val, f)
            caller = s.fid
            fid = s.new_frame(f.x.get("env"), f.x["module"])
            s.frames[fid].update(frame)
            s.frames[fid]["$cls"] = f.x.get("cls")
            s.frames[fid]["$fn"] = fn
            s.fid = fid
            s.depth += 1
            saved_yh = s.yield_handler
            s.yield_handler = None
            if isinstance(fn, ast.Lambda):
                rs = self.ev(fn.body, s)
                for r2 in rs:
                    r2.st.fid = caller
                    r2.st.depth -= 1
                    r2.st.yield_handler = saved_yh
                    out.append(r2)
                continue
            s.trail.append("in:" + fn.name)
            for o in self.exec_block(fn.body, s):
                o.st.fid = caller
                o.st.depth -= 1
                o.st.yield_handler = saved_yh
                o.st.trail.append("out:" + fn.name)
                if o.kind == "raise":
                    out.append(Res(o.st, exc=o.val))
                elif o.kind == "return":
                    out.append(Res(o.st, o.val))
                elif o.kind == "normal":
                    out.append(Res(o.st, SV("none")))
                else:
                    raise Unsupported("break/continue escaping function")
        return out

    # ------------------------------------------------------------------ contracts at call sites
    def callsite_ordinal(self, st, name):
        n = st.ncalls.get(name, 0)
        st.ncalls[name] = n + 1
        return n

    def spec_state(self, st, fid, heap0, entry_frame, res):
        ss = st.copy()
        ss.spec = True
        ss.fid = fid
        ss.heap0 = heap0
        ss.entry_frame = entry_frame
        ss.res = res
        return ss

    def spec_eval(self, st, src, fid, heap0, entry_frame, res):
        """evaluate a contract expression -> z3 Bool; type assumptions / lazily created heap components flow back"""
        e = SP.parse_expr(src)
        ss = self.spec_state(st, fid, heap0, entry_frame, res)
        v = self.ev1(e, ss)
        t = self.truth(ss, v)
        for extra in ss.pc[len(st.pc):]:
            st.pc.append(extra)
        for name, arr in ss.heap.items():
            if name not in st.heap:
                st.heap[name] = arr
        for k2, v2 in ss.globals_seen.items():
            st.globals_seen.setdefault(k2, v2)
        st.frames.update({k2: v2 for k2, v2 in ss.frames.items() if k2 not in st.frames})
        st.nfid = max(st.nfid, ss.nfid)
        return t

    def spec_value(self, st, src, fid, heap0, entry_frame, res):
        e = SP.parse_expr(src)
        ss = self.spec_state(st, fid, heap0, entry_frame, res)
        v = self.ev1(e, ss)
        for extra in ss.pc[len(st.pc):]:
            st.pc.append(extra)
        for name, arr in ss.heap.items():
            if name not in st.heap:
                st.heap[name] = arr
        return v

    def havoc(self, st, designators, fid, keep=()):
        """havoc the locations named by modifies designators (evaluated in the current state); `keep` lists heap components a
        "*" designator leaves alone (the rely that opaque code does not touch those private attributes of pre-existing objects)"""
        for d in designators:
            d = d.strip()
            if d == "*":
                st.snap["$epoch"] = st.snap.get("$epoch", 0) + 1
                ep = st.snap["$epoch"]
                for name in list(st.heap):
                    if name in ("$alloc", "#NTOP", "#LASTARGS", "#LASTKWDOM", "#LASTKWMAP", "#LASTF", "#NCOPY") or name in keep:
                        continue
                    st.heap[name] = z3.Const("H%d!%s!%d" % (ep, name, self.bump()), st.heap[name].sort())
                continue
            if d == "#NTOP":
                # a callee that makes opaque calls also changes the engine-private "most recent opaque call" ghosts
                for nm in ("#LASTARGS", "#LASTKWDOM", "#LASTKWMAP", "#LASTF"):
                    arr = self.harr(st, nm)
                    st.heap[nm] = self.fresh("hv" + nm[1:], arr.sort())
            if d.startswith("#"):
                if "[" in d:
                    gname, idx = d[:-1].split("[", 1)
                    iv = self.spec_value(st, idx, fid, st.heap0, None, {})
                    arr = self.harr(st, gname)
                    ix = iv.t if iv.k in ("int",) + REFKINDS else box(iv)
                    st.heap[gname] = z3.Store(arr, ix, self.fresh("hv", arr.sort().range()))
                else:
                    arr = self.harr(st, d)
                    st.heap[d] = self.fresh("hv" + d[1:], arr.sort())
                continue
            if d.startswith("field:"):
                name = d[6:]
                arr = self.harr(st, name)
                st.heap[name] = self.fresh("hv_" + name, arr.sort())
                continue
            if d.startswith("global:"):
                name = "@" + d[7:]
                arr = self.harr(st, name)
                st.heap[name] = z3.Store(arr, z3.IntVal(0), self.fresh("hv_g", Val))
                continue
            m = None
            if d.startswith("seq(") and d.endswith(")"):
                v = self.spec_value(st, d[4:-1], fid, st.heap0, None, {})
                v = self.concretize(st, v)
                if v.k == "val":
                    v = SV("list", Val.rv(v.t))
                arr = self.harr(st, "$seq")
                st.heap["$seq"] = z3.Store(arr, v.t, self.fresh("hvseq", SeqV))
                continue
            if d.startswith("dict(") and d.endswith(")"):
                v = self.spec_value(st, d[5:-1], fid, st.heap0, None, {})
                v = self.concretize(st, v)
                if v.k == "val":
                    v = SV("dict", Val.rv(v.t))
                st.heap["$dom"] = z3.Store(self.harr(st, "$dom"), v.t, self.fresh("hvdom", SetV))
                st.heap["$map"] = z3.Store(self.harr(st, "$map"), v.t, self.fresh("hvmap", MapV))
                continue
            # obj.attr
            base, attr = d.rsplit(".", 1)
            v = self.spec_value(st, base, fid, st.heap0, None, {})
            v = self.concretize(st, v)
            if v.k == "val":
                ref = Val.rv(v.t)
            elif v.k in REFKINDS:
                ref = v.t
            else:
                raise SpecError("modifies designator %s: base is %s" % (d, v.k))
            arr = self.harr(st, attr)
            st.heap[attr] = z3.Store(arr, ref, self.fresh("hv_" + attr, Val))

    def bump(self):
        self.n += 1
        return self.n

    def apply_contract(self, st, c, fn, f, pos, kw, star, starkw, node, frame=None):
        """use the callee's contract: check requires, havoc modifies, assume ensures (modular step)"""
        out = []
        if frame is not None:
            bound = [Res(st, frame)]
        else:
            bound = self.bind(st, fn, f, pos, kw, star, starkw)
        for r in bound:
            if r.exc is not None:
                out.append(r)
                continue
            s = r.st
            fr = self.resolve_defaults(s, r.val, f) if f is not None else r.val
            # parameters typed by the callee contract: the declared type is part of its precondition -- an obligation at the call site
            # (what from_val would *assume* about a value of that type, collected on a scratch state) -- and only then used
            if fn is not None and self.cur is not None:
                name0 = c.qualname
                for p, h in c.types.items():
                    if p not in fr or not h or h in ("Any", "val") or not isinstance(h, str):
                        continue
                    v0 = fr[p]
                    if v0.k in ("tuple", "func", "bound", "builtin", "ext", "meth", "module", "ctxvar", "specfun", "cls", "genexp", "ctxmgr", "dictview", "seq", "sset", "cset", "sdict"):
                        continue
                    try:
                        bv = box(v0)
                    except Unsupported:
                        continue
                    if v0.k == "val" and v0.h and v0.h not in ("Any", "val"):
                        # the value already carries a declared type (a typed field / typed-dict entry it was read from): that
                        # declaration is what the engine relies on wherever the value is used, here as well
                        try:
                            self.from_val(s, v0.t, v0.h)
                        except (Unsupported, SpecError):
                            pass
                    s2 = State()
                    s2.heap = dict(s.heap)
                    s2.heap0 = s.heap0
                    try:
                        self.from_val(s2, bv, h)
                    except (Unsupported, SpecError):
                        continue
                    if s2.pc:
                        g = z3.simplify(z3.And(*s2.pc))
                        if os.environ.get("PYVC_DBG_TYPES") and z3.is_false(g):
                            print("TYPE-DBG", name0, p, h, v0, [str(x)[:200] for x in s2.pc], file=sys.stderr)
                        if not z3.is_true(g):
                            self.emit(s, "pre@%s:type-of-%s" % (name0, p), g, "pre", c.props)
            for p, h in c.types.items():
                if p in fr and fr[p].k == "val" and h and not h.startswith("Opt["):
                    fr[p] = self.concretize(s, SV("val", fr[p].t, h=h))
            fid = s.new_frame(None, c.path if not c.path.startswith("iface") else self.modpath(s))
            s.frames[fid].update(fr)
            name = c.qualname
            n = self.callsite_ordinal(s, name)
            # universally quantified specification variables of the callee (`free=`): instantiated by the caller's contract
            # (`ghost_args`), otherwise with arbitrary fresh symbols -- either way an instance of the universal statement
            gargs = (self.cur.extra.get("ghost_args", {}) if self.cur is not None else {}).get("%s#%d" % (name, n), {})
            if fn is not None or c.path.startswith("iface"):
                for gname, ghint in c.extra.get("free", {}).items():
                    if gname in s.frames[fid]:
                        continue
                    if gname in gargs:
                        saved_parent = s.frames[fid]["$parent"]
                        s.frames[fid]["$parent"] = self.root_fid
                        try:
                            s.frames[fid][gname] = self.spec_value(s, gargs[gname], fid, s.heap0, None, {})
                        finally:
                            s.frames[fid]["$parent"] = saved_parent
                    else:
                        s.frames[fid][gname] = self.sym(s, "free_" + gname, ghint)
            # ghost snapshots the *caller's* contract asks for at this call site (witnesses for its own ensures)
            if self.cur is not None:
                for gname, gsrc in self.cur.extra.get("snapshots", {}).get("%s#%d" % (name, n), []):
                    gv = self.spec_value(s, gsrc, fid, s.heap0, None, {})
                    s.frames[self.root_fid][gname] = gv
            # ghost permission the caller's contract demands at this call site
            if self.cur is not None:
                tok = self.cur.extra.get("call_tokens", {}).get("%s#%d" % (name, n))
                if tok:
                    # evaluated in the callee's parameter frame on top of the caller's frame: the clause can speak about what is being
                    # passed by the callee's parameter names (stable) instead of the caller's local names (free to be renamed)
                    saved_parent = s.frames[fid]["$parent"]
                    s.frames[fid]["$parent"] = self.root_fid
                    try:
                        g = self.spec_eval(s, tok, fid, s.heap0, s.entry_frame, {})
                    finally:
                        s.frames[fid]["$parent"] = saved_parent
                    self.emit(s, "token@%s#%d" % (name, n), g, "token", c.props)
            # preconditions
            for label, src, props in c.requires:
                g = self.spec_eval(s, src, fid, s.heap0, None, {})
                self.emit(s, "pre@%s#%d:%s" % (name, n, label), g, "pre", props or c.props)
                s.assume(g)
            for label, src, props in c.assumes:
                s.assume(self.spec_eval(s, src, fid, s.heap0, None, {}))
                self.assumptions.add("assumed at %s: %s" % (c.qualname, label))
            # termination inside a declared cycle
            if self.cur is not None and c.cycle and self.cur.cycle == c.cycle and c.decreases and self.cur.decreases:
                callee_m = self.spec_value(s, c.decreases, fid, s.heap0, None, {})
                caller_m = s.snap.get("$measure")
                if caller_m is not None:
                    self.emit(s, "decreases@%s#%d" % (name, n), z3.And(callee_m.t < caller_m, callee_m.t >= 0), "decreases", c.props)
            old_heap = dict(s.heap)
            entry = dict(s.frames[fid])
            self.havoc(s, c.modifies, fid, keep=c.extra.get("keep", ()))
            a0 = self.harr(s, "$alloc")
            a1 = self.fresh("alloc", I)
            s.assume(a1 >= a0)
            s.heap["$alloc"] = a1
            if c.modifies:
                self.wf_assume(s)
            # ghost outputs of the callee (existential witnesses): fresh symbols at the call site, possibly objects the callee allocated
            for gname, ghint in c.extra.get("ghosts", {}).items():
                s.frames[fid][gname] = self.sym(s, "gh_" + gname, ghint)
            outcomes = []
            # exceptional outcomes
            earlier_cls = []
            for ri, rs in enumerate(c.raises or []):
                s2 = s.copy()
                er = self.fresh("exc", I)
                s2.assume(er > a0)
                s2.assume(er <= a1)
                cname = rs.get("cls") or "BaseException"
                cid = self._register_class(cname)
                # ordered clauses: a later clause describes exceptions not governed by an earlier unconditional one
                for ecid in earlier_cls:
                    s2.assume(z3.Not(issub(clsof(er), ecid)))
                if not rs.get("when") and not rs.get("same"):
                    earlier_cls.append(cid)
                if rs.get("exact", cname not in ("BaseException", "Exception")):
                    s2.assume(clsof(er) == cid)
                    ev_ = SV("inst", er, h=cname, x="exc")
                else:
                    s2.assume(issub(clsof(er), cid))
                    ev_ = SV("inst", er, h=cname, x="sub")
                if rs.get("same"):
                    # the exception is a pre-existing object designated by an expression (pass-through)
                    pv = self.spec_value(s2, rs["same"], fid, old_heap, entry, {})
                    ev_ = pv
                if rs.get("when"):
                    s2.assume(self.spec_eval(s2, rs["when"], fid, old_heap, entry, {}))
                for item in SP._labelled(rs.get("ensures", []), "rpost"):
                    s2.assume(self.spec_eval(s2, item[1], fid, old_heap, entry, {"exc": ev_}))
                self.run_after(s2, "after_raise", name, n, fid, old_heap, entry, {"exc": ev_}, c.extra.get("ghosts", {}) if c is self.cur else ())
                if self.feasible(s2):
                    s2.trail.append("call:%s#%d:raises%d" % (name, n, ri))
                    outcomes.append(Res(s2, exc=ev_))
            # normal outcome
            for rs in c.raises or []:
                if rs.get("iff") and rs.get("when"):
                    s.assume(z3.Not(self.spec_eval(s, rs["when"], fid, old_heap, entry, {})))
            result = self.sym(s, "ret_" + name.split(".")[-1], c.returns) if c.returns != "none" else SV("none")
            if result.k == "val" and not result.h:
                # whatever a call returns exists: a reference result denotes an object allocated by now (language-level fact, E11)
                s.assume(z3.Implies(Val.is_RefV(result.t), z3.And(Val.rv(result.t) >= 1, Val.rv(result.t) <= a1)))
            for label, src, props in c.ensures:
                if any(re.search(r"\b%s\b" % re.escape(al), src) for al in c.extra.get("aliases", {})):
                    continue        # a clause about a local of the callee (alias): checked in its own verification, invisible to callers
                s.assume(self.spec_eval(s, src, fid, old_heap, entry, {"result": result}))
            self.run_after(s, "after", name, n, fid, old_heap, entry, {"result": result}, c.extra.get("ghosts", {}) if c is self.cur else ())
            if c.raises:
                s.trail.append("call:%s#%d:ok" % (name, n))
            if not c.raises or self.feasible(s):
                outcomes.append(Res(s, result))
            elif not c.extra.get("may_always_raise"):
                # the callee's postconditions contradict what is known at this call site: nothing after the call would be checked
                self.vacuous_paths.append("call %s#%d: the normal outcome is infeasible here" % (name, n))
            out.extend(outcomes)
        return out

    def run_after(self, s, which, name, n, fid, old_heap, entry, res, c_ghosts=()):
        """ghost updates the verified function's contract attaches to a call site (witnesses / ghost accumulators);
        the expressions see the callee's parameters and ghost outputs, then the caller's ghost variables"""
        if self.cur is None:
            return
        items = self.cur.extra.get(which, {}).get("%s#%d" % (name, n), []) + self.cur.extra.get(which, {}).get(name + "#*", [])
        if not items:
            return
        saved = s.frames[fid]["$parent"]
        s.frames[fid]["$parent"] = self.root_fid
        # recursive call: the caller's own ghost variables win over the equally named ghost outputs of the callee
        own = set(self.cur.extra.get("ghosts", {}))
        shadowed = {g: s.frames[fid].pop(g) for g in list(s.frames[fid]) if g in own and g in c_ghosts}
        try:
            for gname, gsrc in items:
                gv = self.spec_value(s, gsrc, fid, old_heap, entry, res)
                s.frames[self.root_fid][gname] = gv
        finally:
            s.frames[fid]["$parent"] = saved
            s.frames[fid].update(shadowed)

    def emit(self, st, name, goal, kind, props=(), info=None):
        fnname = self.cur.key if self.cur else "?"
        path = "/".join(t for t in st.trail if not t.startswith(("in:", "out:")))
        full = "%s::%s" % (fnname, name) + (("[" + path + "]") if path and kind not in ("pre",) else ("[" + path + "]" if path else ""))
        self.obs.append(Ob(full, list(st.pc), goal, kind, props or (self.cur.props if self.cur else ()),
                           fn=fnname, info=info))

    # ------------------------------------------------------------------ opaque callees (interfaces)
    def pack_args(self, st, pos, kw, star, starkw):
        sq = self.mkseq([box(self.heapify(st, v)) for v in pos])
        if star is not None:
            sq = z3.Concat(sq, self.seq_of(st, star)) if pos else self.seq_of(st, star)
        dom = z3.K(Val, z3.BoolVal(False))
        mp = z3.K(Val, NoneV)
        if starkw is not None:
            dom, mp = self.dom_of(st, starkw), self.map_of(st, starkw)
        for name, v in kw.items():
            kb = Val.StrV(z3.StringVal(name))
            dom = z3.Store(dom, kb, z3.BoolVal(True))
            mp = z3.Store(mp, kb, box(self.heapify(st, v)))
        return sq, dom, mp

    def call_opaque(self, st, recv, role, method, pos, kw, star, starkw):
        """call of code outside /repo through an interface model (a trusted, listed assumption)"""
        key = "iface::%s.%s" % (role, method or "__call__")
        c = SP.CONTRACTS.get(key)
        if c is None:
            key = "iface::Opaque.__call__"
            c = SP.CONTRACTS.get(key)
            if c is None:
                raise Unsupported("opaque call without an interface model (%s.%s)" % (role, method))
        self.assumptions.add("interface model %s: %s" % (key, c.notes))
        if recv.k in REFKINDS:
            nt = self.harr(st, "#NTOP")
            st.heap["#NTOP"] = z3.Store(nt, recv.t, z3.Select(nt, recv.t) + 1)
        params = c.extra.get("params")
        if params is not None and star is not None and starkw is None and not kw:
            # f(*xs) against a fixed-arity interface: the elements of xs bind the remaining parameters
            names = [p for p in params if p != "self"]
            sq = self.seq_of(st, star)
            rest = names[len(pos):]
            out = []
            for s2, b in self.fork(st, z3.Length(sq) == len(rest), "star:arity"):
                if not b:
                    out.append(self.raise_new(s2, "TypeError"))
                    continue
                pos2 = list(pos) + [SV("val", sq[i]) for i in range(len(rest))]
                out.extend(self.call_opaque(s2, recv, role, method, pos2, {}, None, None))
            return out
        if params is not None and star is None and starkw is None:
            fr = {"self": recv}
            names = [p for p in params if p != "self"]
            defaults = c.extra.get("defaults", {})
            if len(pos) > len(names):
                raise Unsupported("too many positional arguments for interface " + key)
            for p, v in zip(names, pos):
                fr[p] = v
            for p, v in kw.items():
                if p in fr or p not in names:
                    raise Unsupported("keyword %s not in interface %s" % (p, key))
                fr[p] = v
            for p in names:
                if p not in fr:
                    if p in defaults:
                        fr[p] = self.const(defaults[p])
                    else:
                        raise Unsupported("missing argument %s for interface %s" % (p, key))
            sq0 = self.mkseq([box(self.heapify(st, fr[p])) for p in names])
            for nm, val in (("#LASTARGS", sq0), ("#LASTKWDOM", z3.K(Val, z3.BoolVal(False))), ("#LASTKWMAP", z3.K(Val, NoneV)), ("#LASTF", box(recv))):
                self.harr(st, nm)
                st.heap[nm] = val
        else:
            sq, dom, mp = self.pack_args(st, pos, kw, star, starkw)
            fr = {"self": recv, "args": self.new_tuple_obj(st, sq), "kwargs": self.new_dict(st, dom, mp)}
            # engine-private ghost: what the most recent opaque call made by an Eliot frame was given
            for nm, val in (("#LASTARGS", sq), ("#LASTKWDOM", dom), ("#LASTKWMAP", mp), ("#LASTF", box(recv))):
                self.harr(st, nm)
                st.heap[nm] = val
        return self.apply_contract(st, c, None, None, [], {}, None, None, None, frame=fr)

    # ------------------------------------------------------------------ class instantiation
    def call_class(self, st, f, pos, kw, star, starkw, node):
        cname = f.h
        if cname is None:
            # e.__class__(...) : a new instance of a symbolic class (exception classes only: allocate, no __init__ model)
            r = self.alloc(st, None)
            st.assume(clsof(r) == f.t)
            return [Res(st, SV("inst", r, h="BaseException", x="sub"))]
        if cname in ("PClass",):
            raise Unsupported("PClass()")
        if cname in self.class_index:
            # exceptions: allocate, record args; custom __init__ of repo exceptions only formats a message
            if "BaseException" in self.ct.ancestors(cname):
                r = self.alloc(st, cname)
                return [Res(st, SV("inst", r, h=cname, x="exc"))]
            key_new = "%s::%s.__new__" % (self.class_index[cname][0], cname)
            mem_new = self.find_member(cname, "__new__")
            if mem_new is not None:
                p, c, n = mem_new
                fn = SV("func", n, x={"module": p, "env": None, "cls": c, "qual": c + ".__new__"})
                return self.call(st, fn, [f] + list(pos), kw, star, starkw, node)
            if "PClass" in self.ct.ancestors(cname):
                return self.pclass_new(st, cname, pos, kw, star, starkw)
            r = self.alloc(st, cname)
            obj = SV("inst", r, h=cname)
            mem = self.find_member(cname, "__init__")
            if mem is None:
                return [Res(st, obj)]
            p, c, n = mem
            fn = SV("func", n, x={"module": p, "env": None, "cls": c, "qual": c + ".__init__"})
            out = []
            for r2 in self.call(st, fn, [obj] + list(pos), kw, star, starkw, node):
                if r2.exc is not None:
                    out.append(r2)
                else:
                    out.append(Res(r2.st, obj))
            return out
        # builtin classes
        if "BaseException" in self.ct.ancestors(cname):
            r = self.alloc(st, cname)
            e = SV("inst", r, h=cname, x="exc")
            if cname == "StopIteration" and pos:
                self.hset(st, "value", r, box(pos[0]))
            return [Res(st, e)]
        return self.call_builtin(st, cname, pos, kw, star, starkw, node)

    def pclass_new(self, st, cname, pos, kw, star, starkw):
        """pyrsistent PClass construction: an immutable record; fields given by keyword, others take the
        declared initial (model: trusted pyrsistent semantics)"""
        if pos or star is not None or starkw is not None:
            raise Unsupported("PClass construction with positional/star arguments")
        self.assumptions.add("pyrsistent PClass: construction/set/transform are functional record updates")
        r = self.alloc(st, cname)
        obj = SV("inst", r, h=cname)
        inits = SP.FIELDS.get(cname + "$init", {})
        for name, v in kw.items():
            self.hset(st, name, r, box(self.heapify(st, v)))
        for name, init in inits.items():
            if name not in kw:
                iv = self.spec_value(st, init, st.fid, st.heap0, None, {})
                if iv.k == "sdict":
                    iv = self.new_dict(st, iv.t[0], iv.t[1])
                elif iv.k == "seq":
                    iv = self.new_list(st, iv.t)
                self.hset(st, name, r, box(iv))
        return [Res(st, obj)]

    # ------------------------------------------------------------------ @exclusively
    def call_exclusively(self, st, f, pos, kw, star, starkw):
        """`@exclusively` methods: the decorator body is `with self._lock: return f(self, *a, **kw)`; the wrapper
        itself is verified under its own contract (contracts/output.py), here we apply it: acquire, call, release."""
        selfv = pos[0]
        lock = self.hget(st, "_lock", selfv.t)
        if any(z3.eq(h, lock) for h in st.held):
            raise Unsupported("re-entrant acquire of a non-reentrant lock (deadlock)")
        st.held.append(lock)
        out = []
        for r in self.inline_call(st, f, pos, kw, star, starkw):
            r.st.held = [h for h in r.st.held if not z3.eq(h, lock)]
            out.append(r)
        return out
