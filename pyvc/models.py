"""Trusted models of builtins, container methods and library functions (DESIGN section 5), plus the
spec-mode builtins of the contract language.  Every clause here is an assumption about CPython /
a dependency, listed in the evidence and cross-checked natively by drivers/axioms_check.py."""
import ast
import z3

from .sorts import (Val, Ev, SeqV, SeqE, SetV, MapV, I, B, S, clsof, issub, cls_module, cls_name,
                    SV, REFKINDS, box, Unsupported, SpecError)
from . import spec as SP
from .engine import Res, State, NoneV, Ob, Outcome

# uninterpreted library functions
str_of = z3.Function("str_of", Val, S)              # str(x) for non-str primitives (int -> decimal digits)
int_of_str = z3.Function("int_of_str", S, I)
is_int_str = z3.Function("is_int_str", S, B)
str_split = z3.Function("str_split", S, S, SeqV)    # s.split(sep)
str_join = z3.Function("str_join", S, SeqV, S)      # sep.join(xs)
ascii_ok = z3.Function("ascii_ok", S, B)
fmt2 = z3.Function("fmt2", S, SeqV, S)              # opaque formatting (%-format / str.format / repr-like), never interpreted
hash_of = z3.Function("hash_of", Val, I)
COUNT_FAILED = z3.Function("count_failed", SeqE, I)   # number of events whose c field is True (offers that raised)
PROJ_B = z3.Function("proj_b", SeqE, SeqV)             # the `b` fields of the events, in order
PROJ_A = z3.Function("proj_a", SeqE, SeqV)             # the `a` fields of the events, in order
FILTER_OUT = z3.Function("filter_out", SeqV, SetV, SeqV)   # the elements of the sequence that are not in the set, in order
BOUND_MAP = z3.Function("bound_map", Val, SeqV, SetV, MapV, MapV)   # getcallargs(f, *args, **kwargs): name -> bound value
PARAMS_OF = z3.Function("params_of", Val, SetV)          # parameter names of a callable (inspect.signature / getcallargs)
ALL_A = z3.Function("all_a", SeqE, Val, B)             # every event's `a` field is the given value
ALL_B = z3.Function("all_b", SeqE, Val, B)             # every event's `b` field is the given value
ALL_TAG = z3.Function("all_tag", SeqE, S, B)           # every event has the given tag
ALL_REPORTS = z3.Function("all_reports", SeqE, B)     # every event of the sequence is a failure report (axioms in contracts/common.py)


class ModelMixin:
    spec_builtins = {"old", "seq", "implies", "iff", "forall", "exists", "fresh", "box", "len", "dom", "Ev",
                     "isinst", "issubcls", "pos_of", "dict_of", "update", "without", "typed", "clsof_", "keys_subset",
                     "ite", "unit", "is_none", "is_str", "is_int", "is_ref", "last", "ref", "allocated",
                     "held", "is_list_of_pos_int", "cls_id", "is_float", "sval", "ival", "dget", "singleton", "str", "is_bool", "is_dict", "is_list",
                     "setof", "contains", "prefix_of", "is_bytes", "is_cls", "map_int2str", "joinstr", "split", "lookup_global",
                     "funcval", "seqmap", "extends", "only_changed", "UNSET", "unchanged", "unchanged_old", "cls_module_name", "all_reports", "empty_log", "count_failed", "suffix_of", "proj_a", "all_b", "all_tag", "card", "outside", "mro", "none_in", "is_concat", "none_missing", "is_subset", "union", "restrict", "lvk", "unlvk", "prefkeys", "setminus", "all_values", "ref_field", "handling_exception", "bound_args", "setof_seq", "instance_of", "str_endswith", "str_startswith", "iso_text", "filter_out", "params_of", "truthy", "is_prefix", "proj_b", "all_b_not", "all_a", "all_nat", "levelstr", "ascii_ok", "bytes_of", "str_contains", "codec_facts", "is_tuple"}

    # ------------------------------------------------------------------ spec-mode calls
    def spec_call(self, e, st):
        if isinstance(e.func, ast.Name):
            name = e.func.id
            if name == "old":
                ss = st.copy()
                ss.heap = dict(st.heap0)
                if st.entry_frame is not None:
                    root = ss.fid
                    while ss.frames[root]["$parent"] is not None:
                        root = ss.frames[root]["$parent"]
                    keep = {k2: v2 for k2, v2 in ss.frames[root].items() if k2 not in st.entry_frame and not k2.startswith("$")}
                    ss.frames[root] = dict(st.entry_frame)
                    for k2, v2 in keep.items():
                        ss.frames[root].setdefault(k2, v2)
                v = self.ev1(e.args[0], ss)
                for extra in ss.pc[len(st.pc):]:
                    st.pc.append(extra)
                for nm, arr in ss.heap.items():
                    if nm not in st.heap0:
                        st.heap0[nm] = arr
                    if nm not in st.heap:
                        st.heap[nm] = arr
                return [Res(st, v)]
            if name in ("forall", "exists"):
                return [Res(st, self.spec_quant(e, st, name))]
            if name in SP.SPECFUNS:
                params, src = SP.SPECFUNS[name]
                args = [self.ev1(a, st) for a in e.args]
                saved = st.fid
                fid = st.new_frame(None, self.modpath(st))
                st.frames[fid].update(dict(zip(params, args)))
                st.fid = fid
                try:
                    v = self.ev1(SP.parse_expr(src), st)
                finally:
                    st.fid = saved
                return [Res(st, v)]
            if name in self.spec_builtins and not self.is_local(st, name):
                args = [self.ev1(a, st) for a in e.args]
                return [Res(st, self.spec_builtin(st, name, args, e))]
        # method calls allowed in spec: .get on dicts, seq helpers
        if isinstance(e.func, ast.Attribute):
            recv = self.ev1(e.func.value, st)
            args = [self.ev1(a, st) for a in e.args]
            return [Res(st, self.spec_method(st, recv, e.func.attr, args))]
        raise SpecError("call not allowed in a contract expression: " + ast.unparse(e))

    def is_local(self, st, name):
        f = st.fid
        while f is not None:
            if name in st.frames[f]:
                return True
            f = st.frames[f]["$parent"]
        return False

    def spec_quant(self, e, st, which):
        lam = e.args[0]
        if not isinstance(lam, ast.Lambda):
            raise SpecError("forall/exists needs a lambda")
        sorts = [a.value for a in e.args[1:]] if len(e.args) > 1 else []
        names = [a.arg for a in lam.args.args]
        if len(sorts) != len(names):
            sorts = (sorts + ["int"] * len(names))[:len(names)]
        vars_ = []
        saved = st.fid
        fid = st.new_frame(saved, None)
        for n, srt in zip(names, sorts):
            self.n += 1
            if srt == "int":
                v = z3.Const("q!%s!%d" % (n, self.n), I)
                st.frames[fid][n] = SV("int", v)
            elif srt == "val":
                v = z3.Const("q!%s!%d" % (n, self.n), Val)
                st.frames[fid][n] = SV("val", v)
            elif srt == "str":
                v = z3.Const("q!%s!%d" % (n, self.n), S)
                st.frames[fid][n] = SV("str", v)
            elif srt == "seq":
                v = z3.Const("q!%s!%d" % (n, self.n), SeqV)
                st.frames[fid][n] = SV("seq", v)
            elif srt.startswith("ref:"):
                v = z3.Const("q!%s!%d" % (n, self.n), I)
                h = srt[4:]
                st.frames[fid][n] = SV("inst", v, h=h) if h != "obj" else SV("obj", v)
            else:
                raise SpecError("quantifier sort " + srt)
            vars_.append(v)
        st.fid = fid
        npc = len(st.pc)
        pats = []
        try:
            body = self.truth(st, self.ev1(lam.body, st))
            # pat=[expr, ...]: explicit instantiation triggers (alternatives), written over the bound variables
            for kw in e.keywords:
                if kw.arg == "pat":
                    for pe in (kw.value.elts if isinstance(kw.value, (ast.List, ast.Tuple)) else [kw.value]):
                        pv = self.ev1(pe, st)
                        pats.append(pv.t if pv.k in ("bool", "int", "str", "seq", "seqe", "sset") else box(pv))
        finally:
            st.fid = saved
        # assumptions introduced under the binder must not leak as global facts about bound variables
        leaked = st.pc[npc:]
        del st.pc[npc:]
        if leaked:
            body = z3.Implies(z3.And(*leaked), body) if which == "forall" else z3.And(z3.And(*leaked), body)
        if pats:
            # pattern purification: ground compound subterms (heap reads through store chains ...) are named by fresh constants, so that
            # the trigger is a plain application over constants and the bound variables (interpreted array terms make brittle triggers)
            pats = [self.purify_pattern(st, p_, vars_) for p_ in pats]
            return SV("bool", z3.ForAll(vars_, body, patterns=pats) if which == "forall" else z3.Exists(vars_, body, patterns=pats))
        return SV("bool", z3.ForAll(vars_, body) if which == "forall" else z3.Exists(vars_, body))

    def set_of_seq(self, st, sq):
        """the set of the elements of a sequence, as a named set constant defined by one quantified fact (one constant per
        sequence term, so that the code's and the contract's uses coincide syntactically)"""
        memo = st.snap.get("$setofseq", {})
        key = z3.simplify(sq).get_id()
        if key in memo:
            return memo[key]
        kq = z3.Const("k!sos", Val)
        ss = self.fresh("setofseq", SetV)
        st.assume(z3.ForAll([kq], z3.Select(ss, kq) == z3.Contains(sq, z3.Unit(kq)), patterns=[z3.Select(ss, kq)]))
        memo = dict(memo)
        memo[key] = ss
        st.snap["$setofseq"] = memo
        return ss

    def _bound_args(self, st, a, e):
        d1, m1 = self.as_sdict(st, self.spec_builtin(st, "dict_of", [a[2]], e))
        sq = self.spec_builtin(st, "seq", [a[1]], e).t
        return SV("sdict", (PARAMS_OF(box(a[0])), BOUND_MAP(box(a[0]), sq, d1, m1)))

    def purify_pattern(self, st, p, bound):
        ids = {b.get_id() for b in bound}
        memo = {}

        def has_bound(t):
            if t.get_id() in ids:
                return True
            return any(has_bound(c) for c in t.children())

        def go(t):
            if t.get_id() in memo:
                return memo[t.get_id()]
            if not z3.is_app(t) or t.num_args() == 0:
                r = t
            elif not has_bound(t):
                c = self.fresh("pt", t.sort())
                st.assume(c == t)
                r = c
            else:
                r = t.decl()(*[go(c) for c in t.children()])
            memo[t.get_id()] = r
            return r
        return go(p)

    def spec_builtin(self, st, name, a, e):
        if name == "implies":
            return SV("bool", z3.Implies(self.truth(st, a[0]), self.truth(st, a[1])))
        if name == "iff":
            return SV("bool", self.truth(st, a[0]) == self.truth(st, a[1]))
        if name == "ite":
            return self.ite(st, self.truth(st, a[0]), a[1], a[2])
        if name == "seq":
            v = self.concretize(st, a[0])
            if v.k == "seq":
                return v
            if v.k == "list":
                return SV("seq", self.seq_of(st, v), h=v.h)
            if v.k == "val":
                return SV("seq", self.hget(st, "$seq", Val.rv(v.t)))
            if v.k == "tuple":
                return SV("seq", self.mkseq([box(x) for x in v.x]))
            if v.k == "none":
                return SV("seq", z3.Empty(SeqV))
            if v.k in ("str", "bytes", "int", "bool", "float"):
                # not a sequence object: the term is total but unspecified (only meaningful under a guard that excludes this case)
                return SV("seq", self.hget(st, "$seq", Val.rv(box(v))))
            raise SpecError("seq() of " + v.k)
        if name == "dict_of":
            v = self.concretize(st, a[0])
            if v.k == "sdict":
                return v
            if v.k == "dict":
                return SV("sdict", (self.dom_of(st, v), self.map_of(st, v)), h=v.h)
            if v.k == "val":
                r = Val.rv(v.t)
                return SV("sdict", (self.hget(st, "$dom", r), self.hget(st, "$map", r)))
            if v.k in ("str", "bytes", "int", "bool", "float", "none"):
                r = Val.rv(box(v))
                return SV("sdict", (self.hget(st, "$dom", r), self.hget(st, "$map", r)))
            raise SpecError("dict_of() of " + v.k)
        if name == "dom":
            d, m = self.as_sdict(st, self.spec_builtin(st, "dict_of", [a[0]], e))
            return SV("sset", d)
        if name == "update":
            d1, m1 = self.as_sdict(st, self.spec_builtin(st, "dict_of", [a[0]], e))
            d2, m2 = self.as_sdict(st, self.spec_builtin(st, "dict_of", [a[1]], e))
            return SV("sdict", (z3.SetUnion(d1, d2), self.ite_map(d2, m2, m1)))
        if name == "without":
            d1, m1 = self.as_sdict(st, self.spec_builtin(st, "dict_of", [a[0]], e))
            for kk in a[1:]:
                d1 = z3.Store(d1, box(kk), z3.BoolVal(False))
                m1 = z3.Store(m1, box(kk), NoneV)
            return SV("sdict", (d1, m1))
        if name == "lvk":
            # the dictionary key a TaskLevel with this level list stands for (content key, see pyrx.py)
            from .pyrx import LVK
            return SV("val", LVK(self.spec_builtin(st, "seq", [a[0]], e).t))
        if name == "prefkeys":
            # the keys of all prefixes of a level list (the node itself and its ancestors), defined by unfolding one step:
            #   prefkeys([]) = {lvk([])};  prefkeys(L) = prefkeys(L[:-1]) + {lvk(L)}, lvk(L) not in prefkeys(L[:-1])
            # (ground instances of the definition for L and L[:-1]; trusted definitional axiom, listed)
            from .pyrx import LVK, PREFK
            self.assumptions.add("prefkeys(L) (keys of the prefixes of a level list): ground instances of its recursive definition")
            L = self.spec_builtin(st, "seq", [a[0]], e).t
            def unfold(L, depth):
                n = z3.Length(L)
                init = z3.Extract(L, z3.IntVal(0), n - 1)
                facts = [z3.Select(PREFK(L), LVK(L)),
                         z3.Implies(n == 0, PREFK(L) == z3.Store(z3.K(Val, z3.BoolVal(False)), LVK(L), z3.BoolVal(True))),
                         z3.Implies(n > 0, z3.And(PREFK(L) == z3.Store(PREFK(init), LVK(L), z3.BoolVal(True)),
                                                  z3.Not(z3.Select(PREFK(init), LVK(L))), z3.Select(PREFK(init), LVK(init))))]
                kq = z3.Const("k!pref", Val)
                from .pyrx import UNLVK
                # named so that the patterns are plain applications (L may be an if-then-else term)
                p0, p1 = self.fresh("prefk", SetV), self.fresh("prefk", SetV)
                n0, n1 = self.fresh("prefn", I), self.fresh("prefn", I)
                facts += [p0 == PREFK(L), p1 == PREFK(init), n0 == n, n1 == n - 1]
                facts.append(z3.ForAll([kq], z3.Implies(z3.Select(p0, kq), z3.And(z3.Length(UNLVK(kq)) <= n0, kq == LVK(UNLVK(kq)))),
                                       patterns=[z3.Select(p0, kq)]))
                facts.append(z3.Implies(n > 0, z3.ForAll([kq], z3.Implies(z3.Select(p1, kq), z3.And(z3.Length(UNLVK(kq)) <= n1, kq == LVK(UNLVK(kq)))),
                                                         patterns=[z3.Select(p1, kq)])))
                facts.append(UNLVK(LVK(L)) == L)
                return facts
            for f in unfold(L, 0):
                st.assume(f)
            if z3.is_app(L) and L.decl().kind() == z3.Z3_OP_SEQ_EXTRACT:
                # prefkeys(Y[a:b]): every member is the key of a list no longer than the slice, so the key of a longer Y is not a member
                Y = L.arg(0)
                st.assume(z3.Implies(z3.Length(L) < z3.Length(Y), z3.Not(z3.Select(PREFK(L), LVK(Y)))))
            return SV("sset", PREFK(L))
        if name == "unlvk":
            from .pyrx import UNLVK
            return SV("seq", UNLVK(box(a[0])))
        if name == "dget":
            d1, m1 = self.as_sdict(st, self.spec_builtin(st, "dict_of", [a[0]], e))
            kb = self.kbox(st, a[1])
            dflt = box(a[2]) if len(a) > 2 else NoneV
            return SV("val", z3.If(z3.Select(d1, kb), z3.Select(m1, kb), dflt))
        if name == "keys_subset":
            d1, m1 = self.as_sdict(st, self.spec_builtin(st, "dict_of", [a[0]], e))
            return SV("bool", z3.IsSubset(d1, self.as_sset(st, a[1])))
        if name == "setof_seq":
            sq = self.spec_builtin(st, "seq", [a[0]], e).t
            return SV("sset", self.set_of_seq(st, sq))
        if name == "setof":
            s = z3.K(Val, z3.BoolVal(False))
            for x in a:
                s = z3.Store(s, box(x), z3.BoolVal(True))
            return SV("sset", s)
        if name == "len":
            v = self.concretize(st, a[0])
            if v.k in ("seq", "seqe", "str", "bytes"):
                return SV("int", z3.Length(v.t))
            if v.k == "list":
                return SV("int", z3.Length(self.seq_of(st, v)))
            raise SpecError("len of " + v.k)
        if name == "last":
            v = self.spec_builtin(st, "seq", [a[0]], e) if a[0].k != "seqe" else a[0]
            el = v.t[z3.Length(v.t) - 1]
            return SV("ev", el) if a[0].k == "seqe" else SV("val", el)
        if name == "unit":
            return SV("seq", z3.Unit(box(a[0])))
        if name == "fresh":
            v = self.concretize(st, a[0])
            ref = Val.rv(v.t) if v.k == "val" else v.t
            return SV("bool", ref > st.heap0["$alloc"])
        if name == "ref_field":
            # ref_field(x, 'attr'): the raw heap cell x.attr (no type assumption), for statements about reachability
            v = a[0]
            ref = Val.rv(v.t) if v.k == "val" else v.t
            return SV("val", self.hget(st, z3.simplify(a[1].t).as_string(), ref))
        if name == "iso_text":
            # iso_text(t, utc, sep): datetime.{utc,}fromtimestamp(t).isoformat(sep) as an uninterpreted function of its inputs
            f = z3.Function("iso_text", Val, B, S, S)
            return SV("str", f(box(a[0]), self.truth(st, a[1]), a[2].t))
        if name == "str_startswith":
            return SV("bool", z3.PrefixOf(a[1].t, a[0].t))
        if name == "str_endswith":
            return SV("bool", z3.SuffixOf(a[1].t, a[0].t))
        if name == "instance_of":
            # instance_of(v, c): Python's isinstance(v, c) for an object v and a (user-defined / exception) class value c
            c = self.concretize(st, a[1])
            bv = box(a[0])
            return SV("bool", z3.And(Val.is_RefV(bv), issub(clsof(Val.rv(bv)), c.t if c.k == "cls" else Val.cv(box(c)))))
        if name == "bound_args":
            # bound_args(f, args, kwargs): inspect.getcallargs(f, *args, **kwargs) as a dictionary value (parameter name -> bound value)
            return self._bound_args(st, a, e)
        if name == "handling_exception":
            # static: is an exception being handled at this program point (sys.exc_info() would return it)?
            return SV("bool", z3.BoolVal(bool(st.exc_stack)))
        if name == "allocated":
            v = self.concretize(st, a[0])
            ref = Val.rv(v.t) if v.k == "val" else v.t
            return SV("bool", z3.And(ref >= 1, ref <= self.harr(st, "$alloc")))
        if name == "ref":
            v = self.concretize(st, a[0])
            return SV("int", Val.rv(v.t) if v.k == "val" else v.t)
        if name == "box":
            return SV("val", box(a[0]))
        if name == "Ev":
            vals = [box(x) for x in a[1:]] + [NoneV] * (8 - len(a))
            return SV("ev", Ev.mkEv(a[0].t, *vals[:7]))
        if name == "isinst":
            v = self.concretize(st, a[0])
            cname = e.args[1].value
            ref = Val.rv(v.t) if v.k == "val" else v.t
            exact = len(e.args) > 2 and e.args[2].value
            cid = self._register_class(cname)
            t = clsof(ref) == cid if exact else issub(clsof(ref), cid)
            if v.k == "val":
                t = z3.And(Val.is_RefV(v.t), t)
            return SV("bool", t)
        if name == "cls_id":
            return SV("cls", z3.IntVal(self._register_class(e.args[0].value)), h=e.args[0].value)
        if name == "clsof_":
            return SV("cls", clsof(Val.rv(box(a[0]))))
        if name == "issubcls":
            return SV("bool", issub(a[0].t, a[1].t))
        if name == "typed":
            # typed(x, "hint"): view a boxed value at a type (adds the type assumption)
            v = a[0]
            if e.args[1].value == "bytes_as_str":
                return SV("str", Val.yv(box(v)))
            npc = len(st.pc)
            bv_ = box(v)
            out = self.from_val(st, bv_, e.args[1].value)
            del st.pc[npc:]          # a view, not a type assumption (it is used under implies/ite guards) ...
            # ... except E11: whatever reference a value holds is an allocated object
            st.assume(z3.Implies(Val.is_RefV(bv_), z3.And(Val.rv(bv_) >= 1, Val.rv(bv_) <= self.harr(st, "$alloc"))))
            return out
        if name == "is_none":
            return SV("bool", box(a[0]) == NoneV)
        if name == "is_str":
            return SV("bool", Val.is_StrV(box(a[0])))
        if name == "is_bytes":
            return SV("bool", Val.is_BytesV(box(a[0])))
        if name == "is_int":
            return SV("bool", Val.is_IntV(box(a[0])))
        if name == "is_bool":
            return SV("bool", Val.is_BoolV(box(a[0])))
        if name == "is_float":
            return SV("bool", Val.is_FloatV(box(a[0])))
        if name == "is_cls":
            return SV("bool", Val.is_ClsV(box(a[0])))
        if name == "is_ref":
            return SV("bool", Val.is_RefV(box(a[0])))
        if name == "is_dict":
            b = box(a[0])
            return SV("bool", z3.And(Val.is_RefV(b), clsof(Val.rv(b)) == self.ct.id("dict")))
        if name == "is_list":
            b = box(a[0])
            return SV("bool", z3.And(Val.is_RefV(b), clsof(Val.rv(b)) == self.ct.id("list")))
        if name == "sval":
            return SV("str", Val.sv(box(a[0])))
        if name == "ival":
            return SV("int", Val.iv(box(a[0])))
        if name == "str":
            v = self.concretize(st, a[0])
            if v.k == "str":
                return v
            return SV("str", str_of(box(v)))
        if name == "held":
            lock = box(a[0])
            return SV("bool", z3.Or(*[h == lock for h in st.held]) if st.held else z3.BoolVal(False))
        if name == "contains":
            return SV("bool", self.contains(st, a[0], a[1]))
        if name == "prefix_of":
            x = self.spec_builtin(st, "seq", [a[0]], e) if a[0].k not in ("seqe",) else a[0]
            y = self.spec_builtin(st, "seq", [a[1]], e) if a[1].k not in ("seqe",) else a[1]
            lx, ly = z3.Length(x.t), z3.Length(y.t)
            return SV("bool", z3.And(lx <= ly, y.t == z3.Concat(x.t, z3.Extract(y.t, lx, ly - lx))))
        if name == "suffix_of":
            x = self.spec_builtin(st, "seq", [a[0]], e) if a[0].k not in ("seqe", "seq") else a[0]
            y = self.spec_builtin(st, "seq", [a[1]], e) if a[1].k not in ("seqe", "seq") else a[1]
            return SV("bool", z3.SuffixOf(x.t, y.t))
        if name == "extends":
            # extends(new, old): new == old ++ something
            return SV("bool", z3.PrefixOf(a[1].t, a[0].t))
        if name == "is_list_of_pos_int":
            sq = self.spec_builtin(st, "seq", [a[0]], e).t
            i = z3.Int("i!lpi")
            return SV("bool", z3.ForAll([i], z3.Implies(z3.And(0 <= i, i < z3.Length(sq)),
                                                         z3.And(Val.is_IntV(sq[i]), Val.iv(sq[i]) >= 1)), patterns=[sq[i]]))
        if name == "joinstr":
            sq = self.spec_builtin(st, "seq", [a[1]], e).t
            return SV("str", str_join(a[0].t, sq))
        if name == "split":
            return SV("seq", str_split(a[0].t, a[1].t), h="str")
        if name == "map_int2str":
            sq = self.spec_builtin(st, "seq", [a[0]], e).t
            return SV("seq", self.seqmap_str(sq), h="str")
        if name in ("only_changed", "unchanged"):
            # only_changed("attr", x, y, ...): the heap component `attr` differs from its old value at most at the
            # references x, y (None entries ignored) -- quantifier-free frame statement
            comp = e.args[0].value
            cur = self.harr(st, comp)
            if comp not in st.heap0:
                st.heap0[comp] = cur
            base = st.heap0[comp]
            expect = base
            for x in a[1:]:
                bx = box(x)
                r = Val.rv(bx)
                expect = z3.If(Val.is_RefV(bx), z3.Store(expect, r, z3.Select(cur, r)), expect)
            q = z3.Int("r!oc")
            a0 = st.heap0["$alloc"]
            # objects allocated since the old state are exempt (their cells did not exist)
            return SV("bool", z3.ForAll([q], z3.Implies(q <= a0, z3.Select(cur, q) == z3.Select(expect, q)),
                                        patterns=[z3.Select(cur, q)]))
        if name == "unchanged_old":
            # every object that existed before keeps its `attr` (new objects are unconstrained)
            comp = e.args[0].value
            cur = self.harr(st, comp)
            if comp not in st.heap0:
                st.heap0[comp] = cur
            base = st.heap0[comp]
            r = z3.Int("r!uo")
            a0 = st.heap0["$alloc"]
            return SV("bool", z3.ForAll([r], z3.Implies(r <= a0, z3.Select(cur, r) == z3.Select(base, r)),
                                        patterns=[z3.Select(cur, r)]))
        if name == "all_reports":
            return SV("bool", ALL_REPORTS(a[0].t))
        if name == "outside":
            # outside(d, keys): d restricted to the keys NOT in `keys` (a set or the key set of a dict)
            d1, m1 = self.as_sdict(st, self.spec_builtin(st, "dict_of", [a[0]], e))
            ks = self.as_sset(st, a[1]) if a[1].k in ("sset", "cset") else self.as_sdict(st, self.spec_builtin(st, "dict_of", [a[1]], e))[0]
            return SV("sdict", (z3.SetDifference(d1, ks), self.ite_map(ks, z3.K(Val, NoneV), m1)))
        if name == "is_concat":
            # is_concat(x, a, b): x is the Python value a + b for str/bytes operands (str+bytes mismatches raise instead)
            x, p, q = box(a[0]), box(a[1]), box(a[2])
            return SV("bool", z3.Or(z3.And(Val.is_StrV(x), Val.is_StrV(p), Val.is_StrV(q), Val.sv(x) == z3.Concat(Val.sv(p), Val.sv(q))),
                                    z3.And(Val.is_BytesV(x), Val.is_BytesV(p), Val.is_BytesV(q), Val.yv(x) == z3.Concat(Val.yv(p), Val.yv(q)))))
        if name == "mro":
            from .libx import mro_of
            v = self.concretize(st, a[0])
            return SV("seq", mro_of(v.t), h="cls")
        if name == "codec_facts":
            # ground instances, for the given uuid text U and level L, of the trusted string-library axioms (contracts/common.py
            # "string-codec"): split at '@', inverse of the level codec, '@'-freeness and ASCII-ness of a level string
            U = a[0].t
            L = self.spec_builtin(st, "seq", [a[1]], e).t
            at, slash = z3.StringVal("@"), z3.StringVal("/")
            ls = z3.Concat(slash, str_join(slash, self.seqmap_str(L)))
            mapint = z3.Function("map_int_nonempty", SeqV, SeqV)
            allint = z3.Function("all_int_nonempty", SeqV, B)
            allnat = z3.Function("all_nat", SeqV, B)
            self.assumptions.add("string library axioms (split at '@'; level codec inverse; level strings are ASCII without '@'): ground instances, cross-checked natively")
            return SV("bool", z3.And(
                z3.Implies(z3.And(z3.Not(z3.Contains(U, at)), z3.Not(z3.Contains(ls, at))),
                           str_split(z3.Concat(U, at, ls), at) == z3.Concat(z3.Unit(Val.StrV(U)), z3.Unit(Val.StrV(ls)))),
                z3.Implies(allnat(L), z3.And(mapint(str_split(ls, slash)) == L, allint(str_split(ls, slash)),
                                             z3.Not(z3.Contains(ls, at)), ascii_ok(ls)))))
        if name == "is_tuple":
            v = a[0]
            if v.k == "tuple":
                return SV("bool", z3.BoolVal(True))
            if v.k == "list":
                return SV("bool", clsof(v.t) == self.ct.id("tuple"))
            b = box(v)
            return SV("bool", z3.And(Val.is_RefV(b), clsof(Val.rv(b)) == self.ct.id("tuple")))
        if name == "all_nat":
            sq = self.spec_builtin(st, "seq", [a[0]], e).t
            return SV("bool", z3.Function("all_nat", SeqV, B)(sq))
        if name == "levelstr":
            sq = self.spec_builtin(st, "seq", [a[0]], e).t
            return SV("str", z3.Concat(z3.StringVal("/"), str_join(z3.StringVal("/"), self.seqmap_str(sq))))
        if name == "ascii_ok":
            return SV("bool", ascii_ok(a[0].t))
        if name == "bytes_of":
            return SV("bytes", a[0].t)
        if name == "str_contains":
            return SV("bool", z3.Contains(a[0].t, a[1].t))
        if name == "is_subset":
            return SV("bool", z3.IsSubset(self.as_sset(st, a[0]), self.as_sset(st, a[1])))
        if name == "union":
            return SV("sset", z3.SetUnion(self.as_sset(st, a[0]), self.as_sset(st, a[1])))
        if name == "none_missing":
            # every key of the sequence is a key of the dict
            sq = self.spec_builtin(st, "seq", [a[0]], e).t
            d1, m1 = self.as_sdict(st, self.spec_builtin(st, "dict_of", [a[1]], e))
            k = z3.Const("k!nm", Val)
            return SV("bool", z3.ForAll([k], z3.Implies(z3.Contains(sq, z3.Unit(k)), z3.Select(d1, k)),
                                        patterns=[z3.Contains(sq, z3.Unit(k))]))
        if name == "none_in":
            sq = self.spec_builtin(st, "seq", [a[0]], e).t
            d1, m1 = self.as_sdict(st, self.spec_builtin(st, "dict_of", [a[1]], e))
            k = z3.Const("k!ni", Val)
            return SV("bool", z3.ForAll([k], z3.Implies(z3.Contains(sq, z3.Unit(k)), z3.Not(z3.Select(d1, k))),
                                        patterns=[z3.Contains(sq, z3.Unit(k))]))
        if name == "card":
            d1, m1 = self.as_sdict(st, self.spec_builtin(st, "dict_of", [a[0]], e))
            return SV("int", self.set_card(d1))
        if name == "all_values":
            # all_values(d, 'Cls'): every value stored in d is an instance of exactly that class (pointwise map combinator: no quantifier
            # over the keys); the class test itself is a function defined by one quantified fact with a pattern
            d1, m1 = self.as_sdict(st, self.spec_builtin(st, "dict_of", [a[0]], e))
            cname = z3.simplify(a[1].t).as_string()
            fn = z3.Function("is_inst_of!" + cname, Val, z3.BoolSort())
            vq = z3.Const("v!isinst", Val)
            st.assume(z3.ForAll([vq], fn(vq) == z3.And(Val.is_RefV(vq), clsof(Val.rv(vq)) == self._register_class(cname)), patterns=[fn(vq)]))
            return SV("bool", z3.IsSubset(d1, z3.Map(fn, m1)))
        if name == "setminus":
            return SV("sset", z3.SetDifference(self.as_sset(st, a[0]) if a[0].k in ("sset", "cset") else self.as_sdict(st, self.spec_builtin(st, "dict_of", [a[0]], e))[0],
                                               self.as_sset(st, a[1]) if a[1].k in ("sset", "cset") else self.as_sdict(st, self.spec_builtin(st, "dict_of", [a[1]], e))[0]))
        if name == "restrict":
            d1, m1 = self.as_sdict(st, self.spec_builtin(st, "dict_of", [a[0]], e))
            ks = self.as_sset(st, a[1]) if a[1].k in ("sset", "cset") else self.as_sdict(st, self.spec_builtin(st, "dict_of", [a[1]], e))[0]
            return SV("sdict", (z3.SetIntersect(d1, ks), self.ite_map(ks, m1, z3.K(Val, NoneV))))
        if name == "filter_out":
            sq = self.spec_builtin(st, "seq", [a[0]], e).t
            return SV("seq", FILTER_OUT(sq, self.as_sset(st, a[1])))
        if name == "params_of":
            return SV("sset", PARAMS_OF(box(a[0])))
        if name == "truthy":
            return SV("bool", self.truth(st, a[0]))
        if name == "is_prefix":
            return SV("bool", z3.PrefixOf(a[0].t, a[1].t))
        if name == "all_b_not":
            sq = a[0].t
            return SV("bool", z3.Not(z3.Contains(sq, z3.Unit(box(a[1])))))
        if name == "all_a":
            return SV("bool", ALL_A(a[0].t, box(a[1])))
        if name == "proj_b":
            return SV("seq", PROJ_B(a[0].t))
        if name == "proj_a":
            return SV("seq", PROJ_A(a[0].t))
        if name == "all_b":
            return SV("bool", ALL_B(a[0].t, box(a[1])))
        if name == "all_tag":
            return SV("bool", ALL_TAG(a[0].t, a[1].t))
        if name == "count_failed":
            return SV("int", COUNT_FAILED(a[0].t))
        if name == "empty_log":
            return SV("seqe", z3.Empty(SeqE))
        if name == "cls_module_name":
            r = Val.rv(box(a[0]))
            return SV("str", z3.Concat(cls_module(clsof(r)), z3.StringVal("."), cls_name(clsof(r))))
        if name == "lookup_global":
            return self.module_global(st, e.args[0].value, e.args[1].value)
        raise SpecError("unknown spec builtin " + name)

    def seqmap_str(self, sq):
        f = z3.Function("map_str", SeqV, SeqV)
        return f(sq)

    def spec_method(self, st, recv, name, a):
        recv = self.concretize(st, recv)
        if recv.k in ("dict", "sdict") and name == "get":
            d, m = self.as_sdict(st, recv)
            kb = box(a[0])
            dflt = box(a[1]) if len(a) > 1 else NoneV
            h = self.key_hint(recv, a[0]) if recv.k == "dict" or recv.h else None
            return SV("val", z3.If(z3.Select(d, kb), z3.Select(m, kb), dflt), h=None)
        raise SpecError("method %s on %s in a contract expression" % (name, recv.k))

    # ------------------------------------------------------------------ builtins (code mode)
    def call_builtin(self, st, name, pos, kw, star, starkw, node):
        if star is not None or starkw is not None:
            raise Unsupported("star arguments to builtin " + name)
        a = [self.concretize(st, x) for x in pos]
        if name == "len":
            v = a[0]
            if v.k == "list":
                return [Res(st, SV("int", z3.Length(self.seq_of(st, v))))]
            if v.k in ("str", "bytes", "seq"):
                return [Res(st, SV("int", z3.Length(v.t)))]
            if v.k == "tuple":
                return [Res(st, SV("int", z3.IntVal(len(v.x))))]
            if v.k == "dict":
                return [Res(st, SV("int", self.dict_size(st, v)))]
            if v.k == "cset":
                raise Unsupported("len of constant set")
            if v.k == "val":
                # len() of a dynamically typed value: a dict / list object has its size; any other object answers through an opaque
                # __len__ (any result, any exception); a primitive other than text raises TypeError, text has some length >= 0
                t = v.t
                out = []
                isd = z3.And(Val.is_RefV(t), clsof(Val.rv(t)) == self.ct.id("dict"))
                isl = z3.And(Val.is_RefV(t), z3.Or(clsof(Val.rv(t)) == self.ct.id("list"), clsof(Val.rv(t)) == self.ct.id("tuple")))
                for s2, b in self.fork(st, isd, "len:dict"):
                    if b:
                        out.append(Res(s2, SV("int", self.dict_size(s2, SV("dict", Val.rv(t))))))
                        continue
                    for s3, b3 in self.fork(s2, isl, "len:list"):
                        if b3:
                            out.append(Res(s3, SV("int", z3.Length(self.hget(s3, "$seq", Val.rv(t))))))
                            continue
                        for s4, b4 in self.fork(s3, Val.is_RefV(t), "len:obj"):
                            if b4:
                                out.extend(self.call_opaque(s4, SV("obj", Val.rv(t), h="Opaque"), "Opaque", "__len__", [], {}, None, None))
                            else:
                                s5 = s4.copy()
                                out.append(self.raise_new(s5, "TypeError"))
                                n_ = self.fresh("textlen", I)
                                s4.assume(z3.And(z3.Or(Val.is_StrV(t), Val.is_BytesV(t)), n_ >= 0))
                                if self.feasible(s4):
                                    out.append(Res(s4, SV("int", n_)))
                return out
            raise Unsupported("len of " + v.k)
        if name == "isinstance":
            return [Res(st, SV("bool", self.isinstance_(st, a[0], a[1])))]
        if name in ("str", "repr"):
            if not a:
                return [Res(st, SV("str", z3.StringVal("")))]
            return self.to_str(st, a[0], name)
        if name == "dict":
            if not a and not kw:
                return [Res(st, self.new_dict(st))]
            if a and a[0].k == "dict":
                d = a[0]
                nd = self.new_dict(st, self.dom_of(st, d), self.map_of(st, d), h=d.h)
                return [Res(st, nd)]
            if a and a[0].k == "genexp":
                return self.dict_from_gen(st, a[0])
            if a and a[0].k == "list" and a[0].x == "pairs":
                dom, mp = a[0].h
                return [Res(st, self.new_dict(st, dom, mp))]
            if a and a[0].k == "val" and not kw:
                # dict(x) for a dynamically typed x: a copy if x is a dict object; for anything else the result depends on x's own
                # iteration protocol (opaque: any dict, or any exception)
                t = a[0].t
                out = []
                for s2, b in self.fork(st, z3.And(Val.is_RefV(t), clsof(Val.rv(t)) == self.ct.id("dict")), "dict():dict"):
                    if b:
                        d0 = SV("dict", Val.rv(t))
                        out.append(Res(s2, self.new_dict(s2, self.dom_of(s2, d0), self.map_of(s2, d0))))
                    else:
                        s3 = s2.copy()
                        out.append(self.raise_new(s3, "TypeError"))
                        s4 = s2.copy()
                        out.append(self.raise_new(s4, "ValueError"))
                        out.append(Res(s2, self.new_dict(s2, self.fresh("ddom", SetV), self.fresh("dmap", MapV))))
                return out
            raise Unsupported("dict() of " + (a[0].k if a else "kwargs"))
        if name in ("list", "tuple"):
            if not a:
                return [Res(st, self.new_list(st, z3.Empty(SeqV)))]
            v = a[0]
            if v.k == "list":
                out = self.new_list(st, self.seq_of(st, v), v.h)
                if name == "tuple":
                    out.x = "tuple"
                return [Res(st, out)]
            if v.k == "seq":
                return [Res(st, self.new_list(st, v.t, v.h))]
            if v.k == "tuple":
                return [Res(st, self.new_list(st, self.mkseq([box(self.heapify(st, x)) for x in v.x])))]
            if v.k == "dictview" and v.t[1] in ("values", "keys"):
                d, mode = v.t
                ks = self.dict_keys_seq(st, d)
                if mode == "keys":
                    return [Res(st, self.new_list(st, ks))]
                vals = self.fresh("vals", SeqV)
                i = z3.Int("i!vals")
                st.assume(z3.Length(vals) == z3.Length(ks))
                st.assume(z3.ForAll([i], z3.Implies(z3.And(0 <= i, i < z3.Length(ks)), vals[i] == z3.Select(self.map_of(st, d), ks[i])),
                                    patterns=[vals[i]]))
                # the same facts in membership form (what list(d.values()) contains), with a witness key per value
                kq = z3.Const("k!vals", Val)
                vq = z3.Const("v!vals", Val)
                self.n += 1
                wit = z3.Function("keywit!%d" % self.n, Val, Val)
                dom_, mp_ = self.dom_of(st, d), self.map_of(st, d)
                st.assume(z3.ForAll([kq], z3.Implies(z3.Select(dom_, kq), z3.Contains(vals, z3.Unit(z3.Select(mp_, kq)))),
                                    patterns=[z3.Select(dom_, kq)]))
                st.assume(z3.ForAll([vq], z3.Implies(z3.Contains(vals, z3.Unit(vq)),
                                                     z3.And(z3.Select(dom_, wit(vq)), z3.Select(mp_, wit(vq)) == vq)),
                                    patterns=[z3.Contains(vals, z3.Unit(vq))]))
                return [Res(st, self.new_list(st, vals, self.key_hint(d, SV("val", ks[0]))))]
            if v.k == "val" and self.implied(st, z3.And(Val.is_RefV(v.t), issub(clsof(Val.rv(v.t)), self.ct.id("set")))):
                # a set object (isinstance(x, set) established on this path): its elements live in `$dom`; list(x) enumerates them
                ks = self.dict_keys_seq(st, SV("dict", Val.rv(v.t)))
                out = self.new_list(st, ks)
                if name == "tuple":
                    out.x = "tuple"
                return [Res(st, out)]
            raise Unsupported("%s() of %s" % (name, v.k))
        if name == "set":
            v = a[0] if a else None
            if v is None:
                return [Res(st, SV("sset", z3.K(Val, z3.BoolVal(False))))]
            if v.k in ("dict", "cset", "sset"):
                return [Res(st, SV("sset", self.as_sset(st, v)))]
            if v.k == "dictview" and v.t[1] == "keys":
                return [Res(st, SV("sset", self.dom_of(st, v.t[0])))]
            if v.k == "tuple":
                return [Res(st, SV("cset", None, x=list(v.x)))]
            if v.k in ("list", "seq"):
                sq = v.t if v.k == "seq" else self.seq_of(st, v)
                k = z3.Const("k!set", Val)
                return [Res(st, SV("sset", z3.Lambda([k], z3.Contains(sq, z3.Unit(k)))))]
            if v.k == "val":
                # set(x) of a dynamic value: TypeError unless it is an (iterable) object; the elements are not interpreted
                return self.may_raise(st, Val.is_RefV(v.t), "TypeError", lambda s: [Res(s, SV("sset", self.fresh("setof", SetV)))])
            raise Unsupported("set() of " + v.k)
        if name == "int":
            v = a[0]
            if v.k == "int":
                return [Res(st, v)]
            if v.k == "str":
                self.assumptions.add("int(s): raises ValueError unless s is an integer literal; int(str(n)) == n")
                return self.may_raise(st, is_int_str(v.t), "ValueError", lambda s: [Res(s, SV("int", int_of_str(v.t)))])
            raise Unsupported("int() of " + v.k)
        if name == "bool":
            return [Res(st, SV("bool", self.truth(st, a[0])))]
        if name == "hash":
            return [Res(st, SV("int", hash_of(box(a[0]) if a[0].k != "list" else Val.RefV(a[0].t))))]
        if name == "type":
            v = a[0]
            if v.k in REFKINDS:
                return [Res(st, SV("cls", clsof(v.t), h=v.h if v.k == "inst" and v.x is None else None))]
            if v.k == "none":
                return [Res(st, SV("cls", z3.IntVal(self.ct.id("NoneType")), h="NoneType"))]
            if v.k == "val":
                return [Res(st, SV("cls", self.class_of_val(v.t)))]
            raise Unsupported("type() of " + v.k)
        if name == "object":
            r = self.alloc(st, "object")
            return [Res(st, SV("obj", r))]
        if name == "sorted":
            return self.sorted_(st, a[0], kw)
        if name == "zip":
            return [Res(st, SV("zip", None, x=a))]
        if name == "map":
            f, xs = a[0], a[1]
            if f.k == "builtin" and f.t == "str" and xs.k in ("list", "seq"):
                sq = xs.t if xs.k == "seq" else self.seq_of(st, xs)
                if xs.h == "int" or True:
                    self.assumptions.add("map(str, xs) over ints: elementwise decimal rendering (uninterpreted map_str with axioms)")
                    return [Res(st, SV("seq", self.seqmap_str(sq), h="str"))]
            raise Unsupported("map()")
        if name in ("any", "all"):
            v = a[0]
            if v.k == "genexp":
                return self.anyall_gen(st, v, name)
            raise Unsupported(name + "() of " + v.k)
        if name == "getattr":
            if a[1].k == "str" and z3.is_string_value(z3.simplify(a[1].t)):
                return self.getattr(st, a[0], z3.simplify(a[1].t).as_string())
            raise Unsupported("getattr with symbolic name")
        if name == "Exception.__init__":
            return [Res(st, SV("none"))]
        if name == "PClass.__new__":
            cls = a[0]
            if cls.k != "cls" or not cls.h:
                raise Unsupported("PClass.__new__ on symbolic class")
            return self.pclass_new(st, cls.h, [], kw, None, None)
        if name == "eval":
            self.assumptions.add("eval(code, globals, locals): an opaque computation over the supplied locals; may raise anything")
            return self.call_opaque(st, SV("obj", self.alloc(st, "function"), h="Eval"), "Eval", "", a[2:3] if len(a) > 2 else [], {}, None, None)
        if name == "globals":
            return [Res(st, self.new_dict(st, self.fresh("gdom", SetV), self.fresh("gmap", MapV)))]
        if name == "print":
            return [Res(st, SV("none"))]
        raise Unsupported("builtin " + name)

    def set_card(self, dom):
        return z3.Function("set_card", SetV, I)(dom)

    def dict_size(self, st, d):
        self.assumptions.add("len(dict) is the cardinality of its key set (uninterpreted set_card; a duplicate-free enumeration of the keys has that length)")
        return self.set_card(self.dom_of(st, d))

    def isinstance_(self, st, v, cl):
        classes = cl.x if cl.k == "tuple" else [cl]
        alts = []
        for c in classes:
            c = self.concretize(st, c)
            if c.k == "builtin":
                cname = c.t
            elif c.k == "cls":
                cname = c.h
            elif c.k == "ext":
                cname = c.t.split(".")[-1]
                if not self.ct.has(cname):
                    self._register_class(cname)
            else:
                raise Unsupported("isinstance against " + c.k)
            alts.append(self.isinstance_one(st, v, cname, c))
        return z3.Or(*alts) if len(alts) > 1 else alts[0]

    def isinstance_one(self, st, v, cname, c):
        prim = {"str": "str", "int": "int", "bytes": "bytes", "float": "float", "bool": "bool"}
        if v.k in prim:
            if cname is None:
                raise Unsupported("isinstance of primitive against symbolic class")
            if cname == v.k or (cname == "int" and v.k == "bool") or cname == "object":
                return z3.BoolVal(True)
            return z3.BoolVal(False)
        if v.k == "none":
            return z3.BoolVal(cname in ("NoneType", "object"))
        if v.k in REFKINDS:
            cid = c.t if c.k == "cls" else z3.IntVal(self._register_class(cname))
            return issub(clsof(v.t), cid)
        if v.k == "val":
            t = v.t
            if cname == "str":
                return Val.is_StrV(t)
            if cname == "bytes":
                return Val.is_BytesV(t)
            if cname == "int":
                return z3.Or(Val.is_IntV(t), Val.is_BoolV(t))
            if cname == "bool":
                return Val.is_BoolV(t)
            if cname == "float":
                return Val.is_FloatV(t)
            cid = c.t if c.k == "cls" else z3.IntVal(self._register_class(cname))
            return z3.And(Val.is_RefV(t), issub(clsof(Val.rv(t)), cid))
        if v.k in ("tuple",):
            return z3.BoolVal(cname in ("tuple", "object"))
        raise Unsupported("isinstance of " + v.k)

    def to_str(self, st, v, which):
        """str(x) / repr(x): primitives are total; objects go through their (opaque, possibly raising) __str__"""
        if v.k == "str" and which == "str":
            return [Res(st, v)]
        if v.k in ("int", "bool", "none", "float", "str", "bytes"):
            self.assumptions.add("str()/repr() of int, bool, None, float, str, bytes never raise")
            return [Res(st, SV("str", str_of(box(v)) if which == "str" else fmt2(z3.StringVal("repr"), z3.Unit(box(v)))))]
        if v.k == "cls":
            return [Res(st, SV("str", fmt2(z3.StringVal(which + "-cls"), z3.Unit(box(v)))))]
        if v.k == "obj" and v.h == "UUID" and which == "str":
            return [Res(st, SV("str", Val.sv(self.hget(st, "$uuid_str", v.t))))]
        if v.k == "tuple":
            raise Unsupported("str of static tuple")
        # anything else: user-defined __str__/__repr__ may do anything
        recv = v if v.k in REFKINDS else SV("val", box(v))
        if recv.k == "val":
            # primitive tags are total, references are opaque calls
            prim = z3.Not(Val.is_RefV(recv.t))
            out = []
            for s2, b in self.fork(st, prim):
                if b:
                    out.append(Res(s2, SV("str", z3.If(Val.is_StrV(recv.t), Val.sv(recv.t), str_of(recv.t)) if which == "str"
                                          else fmt2(z3.StringVal("repr"), z3.Unit(recv.t)))))
                else:
                    out.extend(self.call_opaque(s2, SV("obj", Val.rv(recv.t), h="Str"), "Str", which, [], {}, None, None))
            return out
        return self.call_opaque(st, SV("obj", recv.t, h="Str"), "Str", which, [], {}, None, None)

    def sorted_(self, st, v, kw):
        v = self.concretize(st, v)
        if v.k == "val" and self.implied(st, z3.And(Val.is_RefV(v.t), issub(clsof(Val.rv(v.t)), self.ct.id("set")))):
            # sorted(a set of arbitrary values): TypeError unless the elements are mutually comparable (not interpreted: either outcome)
            self.assumptions.add("sorted(xs) without key over values of unknown types: raises TypeError when two elements are not comparable")
            ks = self.dict_keys_seq(st, SV("dict", Val.rv(v.t)))
            cmp_ok = self.fresh("comparable", B)
            return self.may_raise(st, cmp_ok, "TypeError", lambda s: self.sorted_(s, SV("seq", ks), kw))
        self.assumptions.add("sorted(xs): a permutation of xs (same length, same membership); order by key not interpreted")
        if v.k == "dictview" and v.t[1] == "items":
            d = v.t[0]
            ks = self.dict_keys_seq(st, d)
            return [Res(st, SV("dictview", (d, "items"), x=ks))]
        if v.k in ("list", "seq", "dictview"):
            if v.k == "dictview":
                d, mode = v.t
                if mode == "values":
                    rs = self.call_builtin(st, "list", [v], {}, None, None, None)
                    v = rs[0].val
                else:
                    return [Res(st, SV("seq", self.dict_keys_seq(st, d)))]
            sq = v.t if v.k == "seq" else self.seq_of(st, v)
            out = self.fresh("sorted", SeqV)
            k = z3.Const("k!srt", Val)
            st.assume(z3.Length(out) == z3.Length(sq))
            st.assume(z3.ForAll([k], z3.Contains(out, z3.Unit(k)) == z3.Contains(sq, z3.Unit(k)),
                                patterns=[z3.Contains(out, z3.Unit(k)), z3.Contains(sq, z3.Unit(k))]))
            if not st.spec:
                return [Res(st, self.new_list(st, out, v.h))]      # sorted() returns a new list object
            return [Res(st, SV("seq", out, h=v.h))]
        raise Unsupported("sorted() of " + v.k)

    # ------------------------------------------------------------------ methods of builtin containers
    def call_method(self, st, recv, name, pos, kw, star, starkw, node):
        recv = self.concretize(st, recv)
        a = [self.concretize(st, x) for x in pos]
        k = recv.k
        if k == "obj":
            return self.call_opaque(st, recv, recv.h or "Opaque", name, pos, kw, star, starkw)
        if (k == "inst" and self.is_pclass(recv.h)) or (k == "dict" and recv.x == "pmap"):
            r_ = self.pyr_method(st, recv, name, a, kw, node)
            if r_ is not None:
                return r_
        if star is not None or starkw is not None and not (k == "dict" and name == "update") and not (k == "str" and name == "format"):
            raise Unsupported("star arguments to method " + name)
        if k == "list":
            sq = self.seq_of(st, recv)
            if recv.x == "tuple" and name in ("append", "pop", "extend", "remove", "insert"):
                return [self.raise_new(st, "AttributeError")]
            if name == "append":
                self.check_list_held(st, recv)
                self.set_seq(st, recv, z3.Concat(sq, z3.Unit(box(self.heapify(st, a[0])))))
                return [Res(st, SV("none"))]
            if name == "extend":
                src = a[0]
                if src.k == "list":
                    s2 = self.seq_of(st, src)
                elif src.k == "seq":
                    s2 = src.t
                elif src.k == "tuple":
                    s2 = self.mkseq([box(self.heapify(st, x)) for x in src.x])
                else:
                    raise Unsupported("extend with " + src.k)
                self.set_seq(st, recv, z3.Concat(sq, s2))
                return [Res(st, SV("none"))]
            if name == "pop":
                n = z3.Length(sq)
                if a:
                    if not (a[0].k == "int" and z3.is_int_value(z3.simplify(a[0].t)) and z3.simplify(a[0].t).as_long() == 0):
                        raise Unsupported("list.pop(i) for i != 0")

                    def k0(s):
                        hd = self.fresh("hd", Val)
                        tl = self.fresh("tl", SeqV)
                        s.assume(sq == z3.Concat(z3.Unit(hd), tl))
                        self.set_seq(s, recv, tl)
                        return [Res(s, self.from_val(s, hd, recv.h) if recv.h else SV("val", hd))]
                    return self.may_raise(st, n > 0, "IndexError", k0)

                def k1(s):
                    lst = self.fresh("lst", Val)
                    ini = self.fresh("ini", SeqV)
                    s.assume(sq == z3.Concat(ini, z3.Unit(lst)))
                    self.set_seq(s, recv, ini)
                    return [Res(s, self.from_val(s, lst, recv.h) if recv.h else SV("val", lst))]
                return self.may_raise(st, n > 0, "IndexError", k1)
            if name == "remove":
                x = box(a[0])
                self.assumptions.add("list.remove(x): removes the first element equal to x (identity on boxed values), ValueError if absent")

                def kr(s):
                    pre = self.fresh("pre", SeqV)
                    suf = self.fresh("suf", SeqV)
                    s.assume(sq == z3.Concat(pre, z3.Unit(x), suf))
                    s.assume(z3.Not(z3.Contains(pre, z3.Unit(x))))
                    self.set_seq(s, recv, z3.Concat(pre, suf))
                    if self.cur is not None and s.depth == 0 and "PRE" in self.cur.extra.get("ghosts", {}):
                        s.frames[self.root_fid]["PRE"] = SV("seq", pre)
                        s.frames[self.root_fid]["SUF"] = SV("seq", suf)
                    return [Res(s, SV("none"))]
                return self.may_raise(st, z3.Contains(sq, z3.Unit(x)), "ValueError", kr)
            if name == "copy":
                return [Res(st, self.new_list(st, sq, recv.h))]
            if name == "index" or name == "count" or name == "insert" or name == "sort":
                raise Unsupported("list." + name)
        if k == "dict":
            dom, mp = self.dom_of(st, recv), self.map_of(st, recv)
            if name == "copy":
                return [Res(st, self.new_dict(st, dom, mp, h=recv.h))]
            if name == "get":
                kb = self.kbox(st, a[0])
                dflt = box(a[1]) if len(a) > 1 else NoneV
                h = self.key_hint(recv, a[0])
                v = z3.If(z3.Select(dom, kb), z3.Select(mp, kb), dflt)
                return [Res(st, SV("val", v, h=("Opt[%s]" % h if h and not h.startswith("Opt[") else h) if len(a) < 2 or a[1].k == "none" else None))]
            if name == "pop":
                kb = box(a[0])
                has = z3.Select(dom, kb)
                cur = z3.Select(mp, kb)

                def kp(s):
                    self.hset(s, "$dom", recv.t, z3.Store(dom, kb, z3.BoolVal(False)))
                    self.hset(s, "$map", recv.t, z3.Store(mp, kb, NoneV))
                    return [Res(s, SV("val", cur, h=self.key_hint(recv, a[0])))]
                if len(a) > 1:
                    out = []
                    for s2, b in self.fork(st, has):
                        if b:
                            out.extend(kp(s2))
                        else:
                            out.append(Res(s2, a[1]))
                    return out
                return self.may_raise(st, has, "KeyError", kp)
            if name == "update":
                if a:
                    src = a[0]
                    if src.k != "dict":
                        raise Unsupported("dict.update with " + src.k)
                    d2, m2 = self.dom_of(st, src), self.map_of(st, src)
                elif starkw is not None:
                    d2, m2 = self.dom_of(st, starkw), self.map_of(st, starkw)
                else:
                    d2, m2 = z3.K(Val, z3.BoolVal(False)), z3.K(Val, NoneV)
                nd = z3.SetUnion(dom, d2)
                nm = self.ite_map(d2, m2, mp)
                for name2, v in kw.items():
                    kb = Val.StrV(z3.StringVal(name2))
                    nd = z3.Store(nd, kb, z3.BoolVal(True))
                    nm = z3.Store(nm, kb, box(self.heapify(st, v)))
                self.hset(st, "$dom", recv.t, nd)
                self.hset(st, "$map", recv.t, nm)
                return [Res(st, SV("none"))]
            if name in ("items", "keys", "values"):
                return [Res(st, SV("dictview", (recv, name)))]
            if name == "clear" and not a and recv.x != "pmap":
                self.hset(st, "$dom", recv.t, z3.K(Val, z3.BoolVal(False)))
                self.hset(st, "$map", recv.t, z3.K(Val, NoneV))
                return [Res(st, SV("none"))]
            if name == "setdefault":
                kb = box(a[0])
                has = z3.Select(dom, kb)
                dflt = box(self.heapify(st, a[1])) if len(a) > 1 else NoneV
                self.hset(st, "$dom", recv.t, z3.Store(dom, kb, z3.BoolVal(True)))
                self.hset(st, "$map", recv.t, z3.Store(mp, kb, z3.If(has, z3.Select(mp, kb), dflt)))
                return [Res(st, SV("val", z3.If(has, z3.Select(mp, kb), dflt)))]
        if k == "dictview":
            raise Unsupported("method on dict view")
        if k in ("str", "bytes"):
            return self.str_method(st, recv, name, a, kw, star, starkw)
        if k == "ctxvar":
            return self.ctxvar_method(st, recv, name, a)
        if k == "inst" and recv.h == "Lock":
            return self.lock_method(st, recv, name, a)
        if k == "inst" and recv.h == "Context" and name == "run":
            # Context.run(f, *args): f runs with this context current; its ContextVar changes stay in this Context object
            cid = Val.iv(self.hget(st, "ctx_id_", recv.t))
            saved = st.snap.get("$me")
            st.snap = dict(st.snap)
            st.snap["$me"] = cid
            out = []
            for r in self.call(st, pos[0], list(pos[1:]), kw, None, None, node):
                r.st.snap = dict(r.st.snap)
                if saved is None:
                    r.st.snap.pop("$me", None)
                else:
                    r.st.snap["$me"] = saved
                out.append(r)
            return out
        if k in ("sset", "cset"):
            if name in ("union",):
                return [Res(st, SV("sset", z3.SetUnion(self.as_sset(st, recv), self.as_sset(st, a[0]))))]
        if k == "val":
            # dynamic receiver: method call on an untyped object -> opaque
            return self.may_raise(st, Val.is_RefV(recv.t), "AttributeError",
                                  lambda s: self.call_opaque(s, SV("obj", Val.rv(recv.t), h="Opaque"), "Opaque", name, pos, kw, star, starkw))
        raise Unsupported("method %s on %s" % (name, k))

    def check_list_held(self, st, lst):
        pass

    # ------------------------------------------------------------------ strings
    def str_method(self, st, recv, name, a, kw, star, starkw):
        t = recv.t
        if name == "format":
            if kw or star is not None or starkw is not None:
                raise Unsupported("str.format with keywords")
            tv = z3.simplify(t)
            if z3.is_string_value(tv):
                parts = tv.as_string().split("{}")
                if len(parts) == len(a) + 1 and all("{" not in p for p in parts):
                    rs = [Res(st, SV("str", z3.StringVal(parts[0])))]
                    for part, arg in zip(parts[1:], a):
                        nxt = []
                        for r in rs:
                            if r.exc is not None:
                                nxt.append(r)
                                continue
                            for r2 in self.to_str(r.st, arg, "str"):
                                if r2.exc is not None:
                                    nxt.append(r2)
                                else:
                                    nxt.append(Res(r2.st, SV("str", z3.Concat(r.val.t, r2.val.t, z3.StringVal(part)))))
                        rs = nxt
                    return rs
            raise Unsupported("str.format with a non-literal or non-{} format string")
        if name == "encode":
            enc = a[0] if a else None
            if enc is not None and z3.is_string_value(z3.simplify(enc.t)) and z3.simplify(enc.t).as_string() == "ascii":
                self.assumptions.add("str.encode('ascii') / bytes.decode('ascii') are inverse on ASCII text; raise UnicodeError otherwise")
                return self.may_raise(st, ascii_ok(t), "UnicodeEncodeError", lambda s: [Res(s, SV("bytes", t))])
            return [Res(st, SV("bytes", self.fresh("enc", S)))]
        if name == "decode":
            enc = a[0] if a else None
            encs = z3.simplify(enc.t).as_string() if enc is not None and z3.is_string_value(z3.simplify(enc.t)) else None
            if encs == "ascii":
                self.assumptions.add("str.encode('ascii') / bytes.decode('ascii') are inverse on ASCII text; raise UnicodeError otherwise")
                return self.may_raise(st, ascii_ok(t), "UnicodeDecodeError", lambda s: [Res(s, SV("str", t))])
            ok = self.fresh("utf8ok", B)
            return self.may_raise(st, ok, "UnicodeDecodeError", lambda s: [Res(s, SV("str", self.fresh("dec", S)))])
        if name == "split":
            sep = a[0]
            if sep.k in ("str", "bytes") and sep.k != recv.k:
                return [self.raise_new(st, "TypeError")]       # bytes.split(str) / str.split(bytes)
            self.assumptions.add("str.split(sep)/sep.join: axiomatised (join-split inverse when no element contains sep)")
            res = str_split(t, sep.t)
            st.assume(z3.Length(res) >= 1)      # str.split(sep) never returns an empty list
            return [Res(st, SV("seq", res, h="str"))]
        if name == "join":
            src = a[0]
            if src.k == "seq":
                sq = src.t
            elif src.k == "list":
                sq = self.seq_of(st, src)
            elif src.k == "genexp":
                # sep.join(f(x) for x in xs): f evaluated once on an arbitrary element (whatever it can raise is seen); the text itself
                # is not interpreted
                ge = src.t
                saved = st.fid
                st.fid = src.x
                try:
                    rs = self.ev(ast.ListComp(elt=ge.elt, generators=ge.generators), st)
                finally:
                    for r in rs if 'rs' in dir() else []:
                        r.st.fid = saved
                out = []
                for r in rs:
                    if r.exc is not None:
                        out.append(r)
                    else:
                        out.append(Res(r.st, SV("str", self.fresh("joined", S))))
                return out
            elif src.k == "tuple" and recv.k == "str":
                # sep.join((a, b, ...)): concatenation when every item is text, TypeError otherwise
                items = [self.concretize(st, x) for x in src.x]
                conds = [Val.is_StrV(box(x)) for x in items if x.k != "str"]
                if any(x.k not in ("str", "val") for x in items):
                    return [self.raise_new(st, "TypeError")]

                def kj(s2):
                    parts = []
                    for i, x in enumerate(items):
                        if i:
                            parts.append(t)
                        parts.append(x.t if x.k == "str" else Val.sv(x.t))
                    return [Res(s2, SV("str", z3.Concat(*parts) if len(parts) > 1 else (parts[0] if parts else z3.StringVal(""))))]
                return self.may_raise(st, z3.And(*conds) if conds else z3.BoolVal(True), "TypeError", kj)
            else:
                raise Unsupported("join over " + src.k)
            return [Res(st, SV("str", str_join(t, sq)))]
        if name == "startswith":
            return [Res(st, SV("bool", z3.PrefixOf(a[0].t, t)))]
        if name in ("rstrip", "strip", "lstrip", "replace", "lower", "upper"):
            return [Res(st, SV(recv.k, fmt2(z3.StringVal(name), z3.Concat(z3.Unit(box(recv)), self.mkseq([box(x) for x in a])) if a else z3.Unit(box(recv)))))]
        raise Unsupported("str." + name)

    def str_format_percent(self, st, fmt, args):
        """"%s.%s" % (a, b): for %s/%r placeholders over str arguments this is concatenation; otherwise opaque text"""
        tv = z3.simplify(fmt.t)
        items = args.x if args.k == "tuple" else [args]
        if z3.is_string_value(tv):
            parts = tv.as_string().split("%s")
            if len(parts) == len(items) + 1 and all("%" not in p for p in parts):
                rs = [Res(st, SV("str", z3.StringVal(parts[0])))]
                for part, arg in zip(parts[1:], items):
                    nxt = []
                    for r in rs:
                        if r.exc is not None:
                            nxt.append(r)
                            continue
                        for r2 in self.to_str(r.st, self.concretize(r.st, arg), "str"):
                            if r2.exc is not None:
                                nxt.append(r2)
                            else:
                                nxt.append(Res(r2.st, SV("str", z3.Concat(r.val.t, r2.val.t, z3.StringVal(part)))))
                    rs = nxt
                return rs
        # %r and others: repr of each argument (may raise for objects), result opaque
        rs = [Res(st, [])]
        for arg in items:
            nxt = []
            for r in rs:
                if r.exc is not None:
                    nxt.append(r)
                    continue
                for r2 in self.to_str(r.st, self.concretize(r.st, arg), "repr"):
                    nxt.append(r2 if r2.exc is not None else Res(r2.st, r.val + [r2.val]))
            rs = nxt
        out = []
        for r in rs:
            if r.exc is not None:
                out.append(r)
            else:
                out.append(Res(r.st, SV("str", fmt2(fmt.t, self.mkseq([box(x) for x in r.val])))))
        return out
