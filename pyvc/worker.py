"""Worker process: verify one contracted function (optionally under a source overlay) and print JSON.
Run under a hard wall-clock kill by the parent (z3's soft timeout is not honoured inside its sequence solver)."""
import json
import os
import sys
import time
import traceback

sys.path.insert(0, os.path.dirname(os.path.dirname(os.path.abspath(__file__))))


def main():
    req = json.load(sys.stdin)
    key = req["key"]
    overlay = req.get("overlay") or {}
    budget = int(req.get("z3_ms", 20000))
    import contracts
    contracts.load_all()
    from pyvc import Verifier, Unsupported, SpecError
    from pyvc.frontend import Frontend
    from pyvc import spec as SP
    from pyvc import smt
    out = {"key": key, "obligations": [], "error": None, "assumptions": [], "symexec_s": 0.0}
    t0 = time.time()
    try:
        v = Verifier(Frontend(overlay=overlay))
        if key.startswith("lemma::"):
            obs = v.lemma_obligations(key[7:])
        else:
            obs = v.verify(key)
        out["symexec_s"] = round(time.time() - t0, 3)
        if getattr(v, "vacuous_paths", None):
            raise SpecError("vacuous path(s): the assumptions accumulated along %s are contradictory" % v.vacuous_paths[:3])
        if getattr(v, "vacuous", False):
            raise SpecError("vacuous contract: the requires clauses (with the declared types) are unsatisfiable")
        out["assumptions"] = sorted(v.assumptions)
        out["stats"] = v.stats
        ax = v.axioms()
        if req.get("canary"):
            os.environ["PYVC_NO_EXTERNAL"] = "1"
        shard = req.get("shard")
        for idx, ob in enumerate(obs):
            if shard and idx % shard[1] != shard[0]:
                continue
            verdict, backend, ms, detail = smt.check(ob, ax, budget)
            rec = {"name": ob.name, "kind": ob.kind, "props": ob.props, "verdict": verdict,
                   "backend": backend, "ms": ms, "detail": (detail or "")[:4000], "info": ob.info}
            if req.get("cross") and verdict == "proved":
                rec["cross"] = smt.cross_check(ob, ax, int(req.get("cross_s", 10)))
            out["obligations"].append(rec)
            pids_ = set(req.get("pids") or ([req["pid"]] if req.get("pid") else []))
            relevant = not (ob.kind == "post" and ob.props and pids_ and not (pids_ & set(ob.props)))
            if req.get("canary") and verdict != "proved" and relevant and ob.name.split("[")[0] not in (req.get("ignore") or []) \
                    and ob.name not in (req.get("ignore") or []):
                break
        # verdict stability: a proof that only just fits the budget must not flip when the machine is busy -- the few obligations
        # left open are tried once more with three times the budget before anything is reported
        open_ = [i for i, o in enumerate(out["obligations"]) if o["verdict"] != "proved"]
        if not req.get("canary") and 0 < len(open_) <= 3:
            by_name = {ob.name: ob for ob in obs}
            for i in open_:
                o = out["obligations"][i]
                verdict, backend, ms, detail = smt.check(by_name[o["name"]], ax, 3 * budget)
                if verdict == "proved" or o["verdict"] == "undecided":
                    o.update({"verdict": verdict, "backend": backend, "ms": o["ms"] + ms, "detail": (detail or "")[:4000], "retried": True})
    except Unsupported as e:
        out["error"] = {"type": "unsupported", "msg": str(e)}
    except SpecError as e:
        out["error"] = {"type": "spec", "msg": str(e)}
    except KeyError as e:
        out["error"] = {"type": "missing", "msg": str(e)}
    except Exception as e:
        out["error"] = {"type": "crash", "msg": "%s: %s" % (type(e).__name__, e), "trace": traceback.format_exc()[-3000:]}
    json.dump(out, sys.stdout)


if __name__ == "__main__":
    main()
