"""Contract registry (the sidecar language). Contract files under /verif/contracts are plain Python that
call the functions below; every expression is a *string* holding a Python expression, evaluated by the
same symbolic evaluator that executes the code (spec mode: no side effects, extra spec builtins such as
old(), seq(), implies(), forall(), fresh()).  Contracts are keyed by "<repo path>::<qualname>", never by
line number."""
import ast

CONTRACTS = {}      # key -> Contract
FIELDS = {}         # class name -> {attr: hint}
SPECFUNS = {}       # name -> (params, expr source)  pure spec functions (inlined)
INTERFACES = {}     # role -> InterfaceModel (opaque callables / duck-typed collaborators)
AXIOMS = []         # (name, builder(engine) -> z3 formula)     trusted, listed in evidence
LEMMAS = {}         # name -> Lemma
GLOBAL_HINTS = {}
MODULE_FACTS = {}   # "path:name" -> [spec expr over X]: facts established by module initialisation (trusted, cross-checked natively)
WF_FIELDS = []      # attribute names holding references for which "no dangling reference" / "**kwargs dict is unshared" is assumed   # "path:name" -> hint   (class of module-level singletons)


class Contract:
    def __init__(self, key, **kw):
        self.key = key
        self.path, self.qualname = key.split("::")
        self.types = kw.pop("types", {})
        self.returns = kw.pop("returns", None)
        self.requires = _labelled(kw.pop("requires", []), "pre")
        # assumes: facts taken for granted at entry *and* at call sites (never obligations); each must be justified by a
        # mechanical side check named in its label and is listed in the evidence as an assumption
        self.assumes = _labelled(kw.pop("assumes", []), "assume")
        self.ensures = _labelled(kw.pop("ensures", []), "post")
        self.modifies = kw.pop("modifies", [])
        # raises: None = may not raise at all (noraise); otherwise list of dicts
        #   {"cls": "KeyError" | None (any), "when": expr | None, "ensures": [...], "passthrough": expr}
        self.raises = kw.pop("raises", None)
        self.loops = {}
        for k, v in kw.pop("loops", {}).items():
            self.loops[k] = {"inv": _labelled(v.get("inv", []), "inv"),
                             "modifies": v.get("modifies", []),
                             "decreases": v.get("decreases"), "locals": v.get("locals", {}), "ghost_init": v.get("ghost_init", []), "ghost_step": v.get("ghost_step", []),
                             "membership_fact": v.get("membership_fact", False)}
        self.decreases = kw.pop("decreases", None)
        self.cycle = kw.pop("cycle", None)
        self.inline = kw.pop("inline", False)
        self.props = kw.pop("props", [])
        self.ghost_exit = kw.pop("ghost_exit", [])     # ghost assignments run at normal exit: [(target, expr)]
        self.at_yield = _labelled(kw.pop("at_yield", []), "yield")
        self.assume_types = kw.pop("assume_types", True)
        self.notes = kw.pop("notes", "")
        self.opaque_frames = kw.pop("opaque", {})
        self.verify = kw.pop("verify", True)           # False: trusted contract (listed as assumption)
        self.extra = kw
        self.src_text = None

    def loop(self, k):
        return self.loops.get(k, {"inv": [], "modifies": [], "decreases": None, "locals": {}, "ghost_init": [], "ghost_step": []})


def _labelled(items, prefix):
    out = []
    for n, it in enumerate(items):
        if isinstance(it, str):
            out.append(("%s%d" % (prefix, n), it, []))
        elif len(it) == 2:
            out.append((it[0], it[1], []))
        else:
            out.append((it[0], it[1], list(it[2])))
    return out


def contract(key, **kw):
    if key in CONTRACTS:
        raise ValueError("duplicate contract " + key)
    c = Contract(key, **kw)
    CONTRACTS[key] = c
    return c


def fields(cls, **hints):
    FIELDS.setdefault(cls, {}).update(hints)


def module_fact(key, expr):
    MODULE_FACTS.setdefault(key, []).append(expr)


def wf_fields(*names):
    WF_FIELDS.extend(n for n in names if n not in WF_FIELDS)


def specfun(name, params, expr):
    SPECFUNS[name] = (params, expr)


class Interface:
    """Model of an opaque collaborator reached by dynamic dispatch (a destination, a field
    serializer, a user function ...).  `calls` maps a method name ('' = __call__) to a dict:
       channel : ghost channel that records the call (event tag = role + '.' + method)
       raises  : None (never) | class name (any instance of a subclass) | 'BaseException'
       result  : hint of the result
    Its clauses are assumptions about code outside /repo and are listed in the evidence."""

    def __init__(self, role, calls, doc=""):
        self.role = role
        self.calls = calls
        self.doc = doc


def interface(role, calls, doc=""):
    INTERFACES[role] = Interface(role, calls, doc)


def axiom(name, builder, doc=""):
    AXIOMS.append((name, builder, doc))


class Lemma:
    def __init__(self, name, builder, props, doc=""):
        self.name = name
        self.builder = builder      # builder(engine) -> (hyps, goal)
        self.props = props
        self.doc = doc


def lemma(name, builder, props, doc=""):
    LEMMAS[name] = Lemma(name, builder, props, doc)


def global_hint(key, hint):
    GLOBAL_HINTS[key] = hint


def parse_expr(src):
    try:
        return ast.parse(src.strip(), mode="eval").body
    except SyntaxError as e:
        from .sorts import SpecError
        raise SpecError("bad contract expression %r: %s" % (src, e))
