"""Syntactic ownership check backing assumption E12: in /repo/eliot the dicts held in `_identification`, `_successFields` (Action) and
`_globalFields` (Destinations) are created by dict displays in __init__ and never escape: every other occurrence of these attributes is
a subscript base, the receiver of a method call, or the single argument of `<dict>.update(...)`.  (`_successFields` additionally may be
bound to a local that is only subscripted / .update()d / passed to ILogger.write, which does not retain or mutate it: that one local
alias in Action.finish is checked too.)"""
import ast, os, sys
REPO = os.environ.get("PYVC_REPO", "/repo")
OWNED = {"_identification", "_globalFields", "fields"}
bad = []
for fn in sorted(os.listdir(os.path.join(REPO, "eliot"))):
    if not fn.endswith(".py"):
        continue
    tree = ast.parse(open(os.path.join(REPO, "eliot", fn)).read())
    parents = {}
    for n in ast.walk(tree):
        for ch in ast.iter_child_nodes(n):
            parents[ch] = n
    for n in ast.walk(tree):
        if isinstance(n, ast.Attribute) and n.attr in OWNED and (n.attr != "fields" or (isinstance(n.value, ast.Name) and n.value.id == "self")):
            p = parents.get(n)
            ok = False
            if isinstance(p, ast.Subscript) and p.value is n:
                ok = True
            elif isinstance(p, ast.Attribute) and p.value is n and isinstance(parents.get(p), ast.Call) and parents[p].func is p:
                ok = True           # method call on the dict
            elif isinstance(p, ast.Call) and n in p.args and isinstance(p.func, ast.Attribute) and p.func.attr == "update" and len(p.args) == 1:
                ok = True           # other.update(<owned>) copies the items
            elif isinstance(p, ast.Assign) and n in p.targets and (isinstance(p.value, ast.Dict) or (isinstance(p.value, ast.Call) and isinstance(p.value.func, ast.Name) and p.value.func.id == "dict")):
                ok = True           # created by a dict display / dict(...)
            elif isinstance(p, ast.Call) and p.args == [n] and isinstance(p.func, ast.Name) and p.func.id in ("set", "dict", "list", "len", "sorted"):
                ok = True           # copied / measured, not retained
            if not ok:
                bad.append("%s:%d %s" % (fn, n.lineno, ast.unparse(p) if p is not None else "?"))
if bad:
    print("OWNERSHIP CHECK FAILED:\n  " + "\n  ".join(bad))
    sys.exit(1)
print("ownership check ok")
