"""Native cross-check of the module-initialisation facts the contracts rely on (`module_fact(...)` in contracts/*.py): each fact is
evaluated on the real, imported /repo code.  Run by every check whose plan lists it as a side check; a failing fact makes the
property UNDECIDED (exit 2), never a violation."""
import importlib, os, sys
REPO = os.environ.get("PYVC_REPO", "/repo")
HERE = os.path.dirname(os.path.abspath(__file__))
sys.path.insert(0, REPO)
sys.path.insert(1, os.path.join(HERE, "stubs"))
FACTS = [
    # (module, attribute path, python predicate over X, the fact as written in the contracts)
    ("eliot._traceback", "TRACEBACK_MESSAGE", lambda X: X.message_type == "eliot:traceback", "X.message_type == 'eliot:traceback'"),
    ("eliot.parse", "Task._root_level", lambda X: len(X._level) == 0, "len(level_of(X)) == 0"),
]
# the facts listed here must be exactly the ones declared in the contracts
import re
declared = set()
for fn in os.listdir(os.path.join(HERE, "contracts")):
    if fn.endswith(".py"):
        for m in re.finditer(r'module_fact\("([^"]+)",\s*"([^"]+)"\)', open(os.path.join(HERE, "contracts", fn)).read()):
            declared.add((m.group(1).split(":")[1], m.group(2)))
listed = {(a, t) for _, a, _, t in FACTS}
bad = []
if declared != listed:
    bad.append("facts_check.py and the module_fact declarations differ: %s" % sorted(declared ^ listed))
for mod, attr, pred, text in FACTS:
    try:
        X = importlib.import_module(mod)
        for part in attr.split("."):
            X = getattr(X, part)
        if not pred(X):
            bad.append("%s.%s: %s is false on the real code" % (mod, attr, text))
    except Exception as e:
        bad.append("%s.%s: %s: %s" % (mod, attr, type(e).__name__, e))
if bad:
    print("FACTS CHECK FAILED:\n  " + "\n  ".join(bad))
    sys.exit(1)
print("facts check ok")
