#!/bin/bash
# seeded_matrix.sh [ids...]: for each seeded change, run the quick check of its property against a scratch worktree with the patch applied
# (PYVC_REPO points the whole machinery at that tree); writes seeded/matrix.json
wt=/tmp/seedwt
git -C /repo worktree remove --force $wt >/dev/null 2>&1
git -C /repo worktree add -q --detach $wt HEAD || exit 2
ids="$@"; [ -z "$ids" ] && ids=$(ls -d seeded/C*-* | xargs -n1 basename)
for id in $ids; do
  p=${id%%-*}
  git -C $wt checkout -q -- . ; git -C $wt apply $(readlink -f seeded/$id/patch.diff) || { echo "$id NOAPPLY"; continue; }
  if ! python3 -c "import json,sys; sys.exit(0 if any(c['property_id']=='$p' for c in json.load(open('MANIFEST.json'))['checks']) else 1)"; then echo "$id property-not-claimed"; continue; fi
  out=$(VERIF_EVIDENCE_DIR=seeded/.evidence PYVC_REPO=$wt ./check $p --tier quick --no-canaries 2>&1); rc=$?
  ded=$(python3 -c "import json; e=json.load(open('seeded/.evidence/$p.json')); print(len(e['coverage']['refuted']), len(e['coverage']['undecided']), (e['coverage'].get('bounded_standins') or [{}])[0].get('failures'))")
  echo "$id exit=$rc refuted/undecided/native=$ded :: $(echo "$out" | grep -c VIOLATION) VIOLATION lines"
done
git -C /repo worktree remove --force $wt

