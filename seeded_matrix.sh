#!/bin/bash
# seeded_matrix.sh [ids...]: for each seeded change, run the quick check of its property against a scratch worktree of /repo with the
# patch applied (PYVC_REPO points the whole machinery at that tree, evidence goes to seeded/.evidence so that the evidence of the
# unchanged tree is never overwritten); appends one JSON line per change to seeded/matrix.jsonl and updates seeded/<id>/meta.json
wt=/tmp/seedwt
git -C /repo worktree remove --force $wt >/dev/null 2>&1
git -C /repo worktree add -q --detach $wt HEAD || exit 2
ids="$@"; [ -z "$ids" ] && ids=$(ls -d seeded/C*-* | xargs -n1 basename)
for id in $ids; do
  p=${id%%-*}
  git -C $wt checkout -q -- . ; git -C $wt clean -fdq; git -C $wt apply $(readlink -f seeded/$id/patch.diff) || { echo "$id NOAPPLY"; continue; }
  out=$(VERIF_EVIDENCE_DIR=seeded/.evidence PYVC_REPO=$wt ./check $p --tier quick --no-canaries 2>&1); rc=$?
  python3 - "$id" "$p" "$rc" <<'PY'
import json, sys, os
id_, p, rc = sys.argv[1], sys.argv[2], int(sys.argv[3])
e = json.load(open('seeded/.evidence/%s.json' % p)); c = e['coverage']
st = (c.get('bounded_standins') or [{}])[0]
row = {"id": id_, "property": p, "exit": rc, "refuted_obligations": c['refuted'][:3], "n_refuted": len(c['refuted']),
       "undecided": c['undecided'][:3], "n_undecided": len(c['undecided']), "native_failures": st.get('failures'),
       "violation_lines": e.get('violations')}
how = []
if row["n_refuted"]: how.append("deductive: obligation %s fails (+%d more)" % (row["refuted_obligations"][0], row["n_refuted"] - 1))
if row["n_undecided"]: how.append("undecided: %s" % row["undecided"][0])
if row["native_failures"]: how.append("bounded native driver: %s failing scenario(s)" % row["native_failures"])
row["detected_by"] = how
open('seeded/matrix.jsonl', 'a').write(json.dumps(row) + "\n")
mp = 'seeded/%s/meta.json' % id_
m = json.load(open(mp)); m["detected_by"] = how; m["check_exit"] = rc; json.dump(m, open(mp, 'w'), indent=1)
print(id_, "exit=%d" % rc, "; ".join(how)[:300])
PY
done
git -C /repo worktree remove --force $wt
