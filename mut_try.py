import sys
sys.path.insert(0, "/verif")
import contracts; contracts.load_all()
from pyvc import Verifier
from pyvc.frontend import Frontend
from pyvc import spec as SP
from pyvc.smt import check
def run(path, old, new, keysub):
    src = open("/repo/" + path).read()
    assert src.count(old) == 1, (old, src.count(old))
    fe = Frontend(overlay={path: src.replace(old, new)})
    bad = []
    for key in SP.CONTRACTS:
        if keysub in key and not key.startswith("iface::"):
            v = Verifier(fe)
            try:
                obs = v.verify(key)
            except Exception as e:
                bad.append((key, "ERR " + repr(e))); continue
            for ob in obs:
                r = check(ob, v.axioms(), 10000)
                if r[0] != "proved": bad.append((ob.name, r[0]))
    return bad
if __name__ == "__main__":
    print(run("eliot/_action.py", "new_level.append(1)", "new_level.append(0)", "TaskLevel"))
    print(run("eliot/_action.py", "new_level[-1] += 1", "new_level[-1] += 2", "TaskLevel"))
    print(run("eliot/_action.py", "        return self._level[:]\n", "        return list(self._level)\n", "TaskLevel"))
    print(run("eliot/_action.py", "        new_level = self._level[:]\n        new_level.append(1)", "        new_level = self._level\n        new_level.append(1)", "TaskLevel"))
