#!/bin/bash
# try_seeded.sh <seeded dir> <property ids...>: apply the seeded patch to /repo, run the quick checks, undo.
d=$(readlink -f $1); shift
git -C /repo apply "$d/patch.diff" || exit 9
for p in "$@"; do echo "--- $p on $(basename $d)"; ./check $p --tier quick --no-canaries 2>&1 | tail -6; echo "exit=$?"; done
git -C /repo checkout -- . ; git -C /repo status --short | head -3
