"""Engine self-test run by setup_cmd: tools present, one function proves, one deliberate break is refuted."""
import sys, subprocess
sys.path.insert(0, "/verif")
import contracts; contracts.load_all()
from pyvc import Verifier
from pyvc.frontend import Frontend
from pyvc.smt import check
v = Verifier(); obs = v.verify("eliot/_action.py::TaskLevel.child")
assert obs and all(check(o, v.axioms(), 10000)[0] == "proved" for o in obs), "TaskLevel.child does not prove"
src = open("/repo/eliot/_action.py").read()
if src.count("new_level.append(1)") == 1:
    v = Verifier(Frontend(overlay={"eliot/_action.py": src.replace("new_level.append(1)", "new_level.append(2)")}))
    obs = v.verify("eliot/_action.py::TaskLevel.child")
    assert any(check(o, v.axioms(), 10000)[0] == "refuted" for o in obs), "engine did not refute a deliberate break"
print("pyvc selftest ok")
