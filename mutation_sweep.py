"""mutation_sweep.py [--props C02,C03] [--max-per-function N] [--jobs J] [--budget-ms MS]

Contract-strength measurement (thorough tier, informational): for every function under contract, generate small syntactic mutants of
the *real* source (read from /repo now), verify the mutated function against its unchanged contract (source overlay, nothing is
written to /repo) and record whether some obligation fails (killed) or everything still proves (survived).  Survivors are either
equivalent mutants or holes in the contracts; they are listed for triage in evidence/mutation/<property>.json.  The sweep never
decides a property and never changes an exit code on its own; `check --tier thorough` reports its summary.

Mutation operators (one change per mutant): comparison operator swaps (== != ; is / is not ; < <= ; > >= ; in / not in), boolean
operator swap (and / or), `not` removal, integer literal n -> n+1 (and 1 -> 0), True/False/None swaps, string literal -> other string,
statement deletion (expression statements, augmented and plain assignments -> pass), `return e` -> `return None`, negated `if` test,
`break`/`continue` swap, argument swap for two-argument calls."""
import ast
import concurrent.futures as cf
import hashlib
import json
import os
import subprocess
import sys
import time

HERE = os.path.dirname(os.path.abspath(__file__))
REPO = os.environ.get("PYVC_REPO", "/repo")
PYVT = "python3-vt"


def find_function(tree, qualname):
    body = tree.body
    node = None
    for part in qualname.split("."):
        found = None
        stack = list(body)
        while stack:
            n = stack.pop(0)
            if isinstance(n, (ast.FunctionDef, ast.AsyncFunctionDef, ast.ClassDef)) and n.name == part:
                found = n
                break
            if isinstance(n, (ast.If, ast.Try, ast.With, ast.For, ast.While)):
                for f in ("body", "orelse", "finalbody"):
                    stack.extend(getattr(n, f, []) or [])
                for h in getattr(n, "handlers", []):
                    stack.extend(h.body)
        if found is None:
            return None
        node = found
        body = found.body
    return node


def seg(src_lines, n):
    """(start offset, end offset) of a node in the source text"""
    def off(line, col):
        return sum(len(l) for l in src_lines[:line - 1]) + len(src_lines[line - 1].encode()[:col].decode(errors="ignore"))
    return off(n.lineno, n.col_offset), off(n.end_lineno, n.end_col_offset)


CMP = {ast.Eq: "!=", ast.NotEq: "==", ast.Is: "is not", ast.IsNot: "is", ast.Lt: "<=", ast.LtE: "<", ast.Gt: ">=", ast.GtE: ">",
       ast.In: "not in", ast.NotIn: "in"}


def mutants_of(src, fn):
    """[(description, new source)]"""
    lines = src.splitlines(keepends=True)
    out = []

    def replace(node, text, what):
        a, b = seg(lines, node)
        out.append(("%s at line %d: `%s` -> `%s`" % (what, node.lineno, src[a:b].strip()[:60], text.strip()[:60]), src[:a] + text + src[b:]))

    own = []
    stack = [n for n in fn.body if not isinstance(n, (ast.FunctionDef, ast.AsyncFunctionDef, ast.ClassDef))]
    while stack:
        n = stack.pop()
        own.append(n)
        for ch in ast.iter_child_nodes(n):
            if isinstance(ch, (ast.FunctionDef, ast.AsyncFunctionDef, ast.ClassDef, ast.Lambda)):
                continue
            stack.append(ch)
    first_doc = fn.body[0] if fn.body and isinstance(fn.body[0], ast.Expr) and isinstance(getattr(fn.body[0], "value", None), ast.Constant) \
        and isinstance(fn.body[0].value.value, str) else None
    for n in own:
        if isinstance(n, ast.Compare) and len(n.ops) == 1 and type(n.ops[0]) in CMP:
            l, r = ast.get_source_segment(src, n.left), ast.get_source_segment(src, n.comparators[0])
            if l and r:
                replace(n, "%s %s %s" % (l, CMP[type(n.ops[0])], r), "comparison")
        elif isinstance(n, ast.BoolOp) and len(n.values) == 2:
            a_, b_ = (ast.get_source_segment(src, v) for v in n.values)
            if a_ and b_:
                replace(n, "(%s) %s (%s)" % (a_, "or" if isinstance(n.op, ast.And) else "and", b_), "boolean operator")
        elif isinstance(n, ast.UnaryOp) and isinstance(n.op, ast.Not):
            o = ast.get_source_segment(src, n.operand)
            if o:
                replace(n, "(%s)" % o, "negation removed")
        elif isinstance(n, ast.Constant) and n is not (first_doc.value if first_doc else None):
            if isinstance(n.value, bool):
                replace(n, str(not n.value), "constant")
            elif isinstance(n.value, int):
                replace(n, str(n.value + 1), "constant")
                if n.value == 1:
                    replace(n, "0", "constant")
            elif n.value is None:
                pass
            elif isinstance(n.value, str) and n.value and len(n.value) < 40:
                replace(n, repr(n.value + "_x"), "constant")
        elif isinstance(n, ast.Return) and n.value is not None and not (isinstance(n.value, ast.Constant) and n.value.value is None):
            replace(n, "return None", "return value dropped")
        elif isinstance(n, ast.If):
            t = ast.get_source_segment(src, n.test)
            if t:
                replace(n.test, "not (%s)" % t, "if test negated")
        elif isinstance(n, ast.Break):
            replace(n, "continue", "break->continue")
        elif isinstance(n, ast.Continue):
            replace(n, "break", "continue->break")
        elif isinstance(n, ast.Call) and len(n.args) == 2 and not n.keywords and not any(isinstance(a, ast.Starred) for a in n.args):
            f_, a_, b_ = (ast.get_source_segment(src, x) for x in (n.func, n.args[0], n.args[1]))
            if f_ and a_ and b_ and a_ != b_:
                replace(n, "%s(%s, %s)" % (f_, b_, a_), "arguments swapped")
        if isinstance(n, (ast.Expr, ast.Assign, ast.AugAssign)) and n is not first_doc:
            if isinstance(n, ast.Expr) and isinstance(n.value, (ast.Yield, ast.YieldFrom)):
                continue
            replace(n, "pass", "statement deleted")
    # de-duplicate, drop mutants that do not parse
    seen = set()
    good = []
    for d, s2 in out:
        h = hashlib.sha1(s2.encode()).hexdigest()
        if h in seen:
            continue
        seen.add(h)
        try:
            ast.parse(s2)
        except SyntaxError:
            continue
        good.append((d, s2))
    return good


def run_mutant(job):
    key, path, desc, new_src, budget, ignore, pid = job
    req = json.dumps({"key": key, "overlay": {path: new_src}, "z3_ms": budget, "canary": True, "ignore": ignore, "pid": pid})
    t0 = time.time()
    try:
        p = subprocess.run([PYVT, "-m", "pyvc.worker"], input=req, capture_output=True, text=True, timeout=300,
                           env=dict(os.environ, PYTHONPATH=HERE, PYVC_NO_EXTERNAL="1"))
        r = json.loads(p.stdout)
    except subprocess.TimeoutExpired:
        return key, desc, "timeout", None, time.time() - t0
    except Exception as e:
        return key, desc, "crash", str(e)[:200], time.time() - t0
    if r.get("error"):
        return key, desc, "error:" + r["error"]["type"], r["error"]["msg"][:200], time.time() - t0
    bad = [o for o in r["obligations"] if o["verdict"] != "proved" and o["name"].split("[")[0] not in ignore and o["name"] not in ignore]
    if bad:
        return key, desc, "killed", bad[0]["name"], time.time() - t0
    return key, desc, "survived", None, time.time() - t0


def main():
    import argparse
    ap = argparse.ArgumentParser()
    ap.add_argument("--props", default="")
    ap.add_argument("--max-per-function", type=int, default=40)
    ap.add_argument("--jobs", type=int, default=14)
    ap.add_argument("--budget-ms", type=int, default=8000)
    ap.add_argument("--functions", default="")
    args = ap.parse_args()
    sys.path.insert(0, HERE)
    import contracts
    contracts.load_all()
    from pyvc import spec as SP
    props = [p for p in args.props.split(",") if p]
    try:
        ignore = sorted({f["obligation"] for f in json.load(open(os.path.join(HERE, "known_findings.json"))).get("findings", []) if f.get("obligation")})
    except Exception:
        ignore = []
    jobs = []
    nfun = 0
    for key, c in SP.CONTRACTS.items():
        if key.startswith(("iface::", "lemma::")) or not c.verify:
            continue
        cprops = set(c.props) | {p for e in c.ensures for p in e[2]}
        if props and not (cprops & set(props)):
            continue
        if args.functions and not any(t in key for t in args.functions.split(",")):
            continue
        path, qual = key.split("::")
        try:
            src = open(os.path.join(REPO, path)).read()
        except OSError:
            continue
        fn = find_function(ast.parse(src), qual)
        if fn is None or isinstance(fn, ast.ClassDef):
            continue
        ms = mutants_of(src, fn)
        nfun += 1
        # deterministic thinning
        if len(ms) > args.max_per_function:
            step = len(ms) / float(args.max_per_function)
            ms = [ms[int(i * step)] for i in range(args.max_per_function)]
        for d, s2 in ms:
            jobs.append((key, path, d, s2, args.budget_ms, ignore, None))
    print("%d functions, %d mutants" % (nfun, len(jobs)), file=sys.stderr)
    t0 = time.time()
    results = []
    with cf.ThreadPoolExecutor(max_workers=args.jobs) as ex:
        for i, r in enumerate(ex.map(run_mutant, jobs)):
            results.append(r)
            if (i + 1) % 50 == 0:
                print("  %d/%d  %.0fs" % (i + 1, len(jobs), time.time() - t0), file=sys.stderr)
    per = {}
    for key, desc, verdict, detail, secs in results:
        e = per.setdefault(key, {"killed": 0, "survived": [], "other": {}, "mutants": 0})
        e["mutants"] += 1
        if verdict == "killed":
            e["killed"] += 1
        elif verdict == "survived":
            e["survived"].append(desc)
        else:
            e["other"].setdefault(verdict, []).append(desc + (" :: " + detail if detail else ""))
    total = len(results)
    killed = sum(e["killed"] for e in per.values())
    survived = sum(len(e["survived"]) for e in per.values())
    out = {"mutants": total, "killed_by_a_failed_obligation": killed, "survived_all_obligations_proved": survived,
           "left_the_subset_or_timed_out (not counted either way)": total - killed - survived,
           "wall_s": round(time.time() - t0, 1), "functions": per,
           "note": "survivors are equivalent mutants or contract holes; triage notes in DESIGN.md section 17"}
    os.makedirs(os.path.join(HERE, "evidence", "mutation"), exist_ok=True)
    name = (args.props.replace(",", "_") or "all") + ("_" + hashlib.sha1(args.functions.encode()).hexdigest()[:6] if args.functions else "")
    with open(os.path.join(HERE, "evidence", "mutation", name + ".json"), "w") as f:
        json.dump(out, f, indent=1)
    print(json.dumps({k: v for k, v in out.items() if k != "functions"}))
    for key, e in sorted(per.items()):
        if e["survived"]:
            print("SURVIVED %s (%d/%d killed)" % (key, e["killed"], e["mutants"]))
            for d in e["survived"]:
                print("     " + d)


if __name__ == "__main__":
    main()
