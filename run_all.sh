#!/bin/bash
# run_all.sh [substring]: verify every contracted function (matching substring) via workers, 4 at a time x 4 shards
python3-vt - "$1" <<'PY' > /tmp/keys.txt
import sys; sys.path.insert(0,'/verif')
import contracts; contracts.load_all()
from pyvc import spec as SP
for k,c in SP.CONTRACTS.items():
    if not k.startswith('iface::') and c.verify and (len(sys.argv)<2 or sys.argv[1] in k): print(k)
PY
run() { key="$1"; out=$(/verif/run_w.sh "$key" 4 2>&1 | head -12); echo "== $key :: $out" | head -12; }
export -f run
cat /tmp/keys.txt | xargs -P 4 -I{} bash -c 'run "{}"'
