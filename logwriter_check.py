"""Syntactic side check for C19 (single writer thread, never the caller's): in eliot/logwriter.py `self._destination` is called only inside
ThreadedWriter._reader, `_reader` is referenced only as the `target=` of the threading.Thread created in startService, and no other
method of the class calls `_reader` or the destination."""
import ast, os, sys
REPO = os.environ.get("PYVC_REPO", "/repo")
tree = ast.parse(open(os.path.join(REPO, "eliot/logwriter.py")).read())
bad = []
cls = [n for n in tree.body if isinstance(n, ast.ClassDef) and n.name == "ThreadedWriter"]
if not cls:
    print("LOGWRITER CHECK FAILED: class ThreadedWriter not found"); sys.exit(1)
for m in cls[0].body:
    if not isinstance(m, ast.FunctionDef):
        continue
    parents = {}
    for n in ast.walk(m):
        for ch in ast.iter_child_nodes(n):
            parents[ch] = n
    for n in ast.walk(m):
        if isinstance(n, ast.Attribute) and isinstance(n.value, ast.Name) and n.value.id == "self":
            p = parents.get(n)
            if n.attr == "_destination":
                is_call = isinstance(p, ast.Call) and p.func is n
                is_store = isinstance(n.ctx, ast.Store)
                if is_call and m.name != "_reader":
                    bad.append("self._destination called in %s" % m.name)
                if not is_call and not (is_store and m.name == "__init__"):
                    bad.append("self._destination escapes in %s" % m.name)
            if n.attr == "_reader":
                ok = isinstance(p, ast.keyword) and p.arg == "target" and m.name == "startService"
                if not ok:
                    bad.append("self._reader referenced in %s other than as Thread target" % m.name)
if bad:
    print("LOGWRITER CHECK FAILED:\n  " + "\n  ".join(bad)); sys.exit(1)
print("logwriter check ok")
