#!/bin/bash
# check_all.sh [tier]: run every claimed check sequentially, summarise
tier=${1:-quick}
for p in $(python3 -c "import json; print(' '.join(c['property_id'] for c in json.load(open('MANIFEST.json'))['checks']))"); do
  s=$(date +%s); out=$(./check $p --tier $tier 2>&1); rc=$?; e=$(date +%s)
  echo "### $p exit=$rc $((e-s))s"; echo "$out" | tail -4
done
