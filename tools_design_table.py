"""print the per-property status table for DESIGN.md from the evidence files of the last run"""
import json, os
HERE = os.path.dirname(os.path.abspath(__file__))
kf = json.load(open(os.path.join(HERE, "known_findings.json")))
print("| id | functions under contract | obligations (all discharged) | back ends (ms) | canaries caught / benign green | bounded native driver: cases, failures | findings | wall s |")
print("|---|---|---|---|---|---|---|---|")
for i in range(1, 21):
    pid = "C%02d" % i
    p = os.path.join(HERE, "evidence", pid + ".json")
    if not os.path.exists(p):
        print("| %s | not claimed | | | | | | |" % pid); continue
    e = json.load(open(p)); c = e["coverage"]
    st = (c.get("bounded_standins") or [{}])[0]
    can = c.get("canaries", {})
    fnd = [f["id"] for f in kf["findings"] if f["property"] == pid]
    print("| %s | %d | %d / %d | %s | %s/%s, %s | %s, %s | %s | %s |" % (
        pid, len(c.get("functions_under_contract", [])), c["discharged"], c["obligations"],
        ", ".join("%s %d" % (k, v) for k, v in sorted(c.get("solver_time_ms", {}).items())),
        can.get("caught"), can.get("applied"), can.get("benign_green"), st.get("evaluations"), st.get("failures"),
        " ".join(fnd) or "-", e.get("wall_s")))
