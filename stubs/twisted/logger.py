"""Stub of twisted.logger: only the Logger class that eliot.twisted imports (TwistedDestination)."""


class Logger(object):
    """Records emitted events on C{self.events} instead of publishing them anywhere."""

    def __init__(self, namespace=None, source=None, observer=None):
        self.namespace = namespace
        self.source = source
        self.observer = observer
        self.events = []

    def emit(self, level, format=None, **kwargs):
        event = dict(kwargs, log_level=level, log_format=format, log_namespace=self.namespace)
        self.events.append(event)
        if self.observer is not None:
            self.observer(event)

    def _lvl(name):
        def method(self, format=None, **kwargs):
            self.emit(name, format, **kwargs)
        method.__name__ = name
        return method

    debug = _lvl("debug")
    info = _lvl("info")
    warn = _lvl("warn")
    error = _lvl("error")
    critical = _lvl("critical")
    del _lvl

    def failure(self, format, failure=None, level="critical", **kwargs):
        self.emit(level, format, log_failure=failure, **kwargs)
