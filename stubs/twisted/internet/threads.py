"""Stub of twisted.internet.threads: deferToThreadPool runs f in a helper thread and returns a small
Deferred-like object (wait/result/done/called/addCallback/addBoth)."""
import threading


class ThreadResult(object):
    """Fires once f has returned (or raised) in the helper thread."""

    def __init__(self):
        self._event = threading.Event()
        self._lock = threading.Lock()
        self._callbacks = []
        self._value = None
        self._error = None
        self.called = False
        self.thread = None

    # -- used by the helper thread
    def _fire(self, value, error):
        with self._lock:
            self._value, self._error = value, error
            self.called = True
            callbacks, self._callbacks = self._callbacks, []
        for cb in callbacks:
            try:
                cb(error if error is not None else value)
            except BaseException:
                pass
        self._event.set()

    # -- used by callers
    def addBoth(self, cb):
        """cb(result_or_exception) runs in the helper thread at the instant of completion (before wait()
        returns), or immediately in the calling thread if already complete."""
        with self._lock:
            if not self.called:
                self._callbacks.append(cb)
                return self
            r = self._error if self._error is not None else self._value
        cb(r)
        return self

    addCallback = addBoth

    def done(self):
        return self.called

    def wait(self, timeout=None):
        return self._event.wait(timeout)

    def result(self, timeout=None):
        if not self._event.wait(timeout):
            raise TimeoutError("deferToThreadPool call did not finish within %r s" % (timeout,))
        if self._error is not None:
            raise self._error
        return self._value


def deferToThreadPool(reactor, threadpool, f, *args, **kwargs):
    d = ThreadResult()

    def run():
        try:
            v = f(*args, **kwargs)
        except BaseException as e:
            d._fire(None, e)
        else:
            d._fire(v, None)

    t = threading.Thread(target=run, name="stub-deferToThreadPool")
    t.daemon = True
    d.thread = t
    t.start()
    return d


def deferToThread(f, *args, **kwargs):
    return deferToThreadPool(None, None, f, *args, **kwargs)
