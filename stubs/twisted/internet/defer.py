"""Stub of twisted.internet.defer: a synchronous Deferred (callback chains run at fire time, in the firing
code's stack and context, exactly like Twisted) and inlineCallbacks driving a generator with send/throw."""
from functools import wraps

from twisted.python.failure import Failure


class AlreadyCalledError(Exception):
    pass


class CancelledError(Exception):
    pass


def _passthru(arg):
    return arg


class Deferred(object):
    called = False
    paused = 0

    def __init__(self, canceller=None):
        self.callbacks = []
        self._canceller = canceller
        self._running = False

    def addCallbacks(self, callback, errback=None, callbackArgs=None, callbackKeywords=None,
                     errbackArgs=None, errbackKeywords=None):
        self.callbacks.append(((callback, callbackArgs or (), callbackKeywords or {}),
                               (errback or _passthru, errbackArgs or (), errbackKeywords or {})))
        if self.called:
            self._run()
        return self

    def addCallback(self, callback, *args, **kw):
        return self.addCallbacks(callback, callbackArgs=args, callbackKeywords=kw)

    def addErrback(self, errback, *args, **kw):
        return self.addCallbacks(_passthru, errback, errbackArgs=args, errbackKeywords=kw)

    def addBoth(self, callback, *args, **kw):
        return self.addCallbacks(callback, callback, callbackArgs=args, errbackArgs=args,
                                 callbackKeywords=kw, errbackKeywords=kw)

    def callback(self, result):
        self._start(result)

    def errback(self, fail=None):
        if fail is None:
            fail = Failure()
        elif not isinstance(fail, Failure):
            fail = Failure(fail)
        self._start(fail)

    def cancel(self):
        if not self.called:
            if self._canceller is not None:
                self._canceller(self)
            if not self.called:
                self.errback(Failure(CancelledError()))

    def pause(self):
        self.paused += 1

    def unpause(self):
        self.paused -= 1
        if not self.paused and self.called:
            self._run()

    def _start(self, result):
        if self.called:
            raise AlreadyCalledError()
        self.called = True
        self.result = result
        self._run()

    def _run(self):
        if self._running or self.paused:
            return
        self._running = True
        try:
            while self.callbacks and not self.paused:
                cb, eb = self.callbacks.pop(0)
                f, args, kw = eb if isinstance(self.result, Failure) else cb
                try:
                    self.result = f(self.result, *args, **kw)
                except BaseException:
                    self.result = Failure()
                else:
                    if isinstance(self.result, Deferred):
                        inner = self.result
                        self.result = None
                        self.pause()
                        inner.addBoth(self._continue)
        finally:
            self._running = False

    def _continue(self, result):
        self.result = result
        self.unpause()
        return None


def succeed(result):
    d = Deferred()
    d.callback(result)
    return d


def fail(result=None):
    d = Deferred()
    d.errback(result)
    return d


class _DefGen_Return(BaseException):
    def __init__(self, value):
        self.value = value


def returnValue(val):
    raise _DefGen_Return(val)


def _inline(result, gen, status):
    """One trampoline run: keep resuming gen until it waits on an unfired Deferred or finishes."""
    while True:
        try:
            if isinstance(result, Failure):
                result = result.throwExceptionIntoGenerator(gen)
            else:
                result = gen.send(result)
        except StopIteration as e:
            status.callback(getattr(e, "value", None))
            return
        except _DefGen_Return as e:
            status.callback(e.value)
            return
        except BaseException:
            status.errback(Failure())
            return
        if isinstance(result, Deferred):
            state = {"waiting": True, "result": None}

            def got(r, state=state):
                if state["waiting"]:
                    state["waiting"] = False
                    state["result"] = r
                else:
                    _inline(r, gen, status)
                return None

            result.addBoth(got)
            if state["waiting"]:
                state["waiting"] = False
                return
            result = state["result"]
        # non-Deferred values are sent straight back, as in Twisted


def inlineCallbacks(f):
    @wraps(f)
    def unwindGenerator(*args, **kwargs):
        gen = f(*args, **kwargs)
        status = Deferred()
        _inline(None, gen, status)
        return status

    return unwindGenerator
