"""Stub of twisted.application.service: just enough Service for eliot.logwriter.ThreadedWriter."""


class Service(object):
    """Mirrors twisted.application.service.Service: startService/stopService maintain C{running}."""

    name = None
    running = 0
    parent = None

    def startService(self):
        self.running = 1

    def stopService(self):
        self.running = 0

    def setName(self, name):
        self.name = name

    def privilegedStartService(self):
        pass
