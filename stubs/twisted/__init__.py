"""Minimal stand-in for Twisted (not installed here); only what eliot imports. Used by /verif/drivers."""
