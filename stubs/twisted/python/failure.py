"""Stub of twisted.python.failure: a Failure that wraps an exception instance (explicit, or the one
currently being handled) and can re-raise it or throw it into a generator."""
import sys
import traceback


class NoCurrentExceptionError(Exception):
    pass


class Failure(BaseException):
    def __init__(self, exc_value=None, exc_type=None, exc_tb=None):
        if exc_value is None:
            exc_type, exc_value, exc_tb = sys.exc_info()
            if exc_value is None:
                raise NoCurrentExceptionError()
        elif exc_type is None:
            exc_type = type(exc_value) if isinstance(exc_value, BaseException) else exc_value.__class__
            if exc_tb is None:
                exc_tb = getattr(exc_value, "__traceback__", None)
        self.value = exc_value
        self.type = exc_type
        self.tb = exc_tb

    def check(self, *errorTypes):
        for t in errorTypes:
            if isinstance(self.value, t):
                return t
        return None

    def trap(self, *errorTypes):
        t = self.check(*errorTypes)
        if not t:
            self.raiseException()
        return t

    def raiseException(self):
        raise self.value.with_traceback(self.tb)

    def throwExceptionIntoGenerator(self, g):
        return g.throw(self.value.with_traceback(self.tb))

    def getErrorMessage(self):
        return str(self.value)

    def getTraceback(self, elideFrameworkCode=0, detail="default"):
        return "".join(traceback.format_exception(self.type, self.value, self.tb))

    def getBriefTraceback(self):
        return self.getTraceback()

    def cleanFailure(self):
        self.tb = None

    def __repr__(self):
        return "<stub Failure %s: %s>" % (getattr(self.type, "__name__", self.type), self.value)
