"""Syntactic side check for C05/C04: the current action lives in exactly one place, the ContextVar `_ACTION_CONTEXT` of eliot/_action.py,
which is bound once and only ever used through .get/.set/.reset; no thread-local or global statement carries context in
_action.py / _generators.py; the per-instance token slot `_parent_token` is driven by `with` only (see below)."""
import ast, os, sys
REPO = os.environ.get("PYVC_REPO", "/repo")
bad = []
src = open(os.path.join(REPO, "eliot/_action.py")).read()
tree = ast.parse(src)
binds = [n for n in tree.body if isinstance(n, ast.Assign) and any(isinstance(t, ast.Name) and t.id == "_ACTION_CONTEXT" for t in n.targets)]
if len(binds) != 1 or not (isinstance(binds[0].value, ast.Call) and getattr(binds[0].value.func, "id", getattr(binds[0].value.func, "attr", "")) == "ContextVar"):
    bad.append("_ACTION_CONTEXT is not bound exactly once to ContextVar(...)")
for fn in sorted(os.listdir(os.path.join(REPO, "eliot"))):
    if not fn.endswith(".py") or fn.startswith("test"):
        continue
    t = ast.parse(open(os.path.join(REPO, "eliot", fn)).read())
    parents = {}
    for n in ast.walk(t):
        for ch in ast.iter_child_nodes(n):
            parents[ch] = n
    for n in ast.walk(t):
        if isinstance(n, ast.Name) and n.id == "_ACTION_CONTEXT" and isinstance(n.ctx, ast.Load):
            p = parents.get(n)
            if not (isinstance(p, ast.Attribute) and p.attr in ("get", "set", "reset") and isinstance(parents.get(p), ast.Call)):
                bad.append("%s:%d _ACTION_CONTEXT used other than through get/set/reset" % (fn, n.lineno))
        if fn in ("_action.py", "_generators.py"):
            if isinstance(n, ast.Global):
                bad.append("%s:%d global statement" % (fn, n.lineno))
            if isinstance(n, ast.Attribute) and n.attr == "local" and isinstance(n.value, ast.Name) and n.value.id == "threading":
                bad.append("%s:%d threading.local" % (fn, n.lineno))
# Token discipline behind the rely "application code run inside a block does not disturb the block's context token" (C04): the only
# per-instance token slot, Action._parent_token, is written in Action.__enter__ / Action.__exit__ alone, and no Eliot function calls
# __enter__ / __exit__ explicitly (they are reached through `with` only) -- so context() and run() keep their tokens in locals, and
# entering the same action again through them cannot clobber the token of an enclosing `with` (seeded change C04-4 breaks exactly this).
for cls_ in [n for n in tree.body if isinstance(n, ast.ClassDef)]:
    for f in [n for n in cls_.body if isinstance(n, ast.FunctionDef)]:
        for n in ast.walk(f):
            if isinstance(n, ast.Attribute) and n.attr == "_parent_token" and isinstance(n.ctx, (ast.Store, ast.Del)):
                if not (cls_.name == "Action" and f.name in ("__init__", "__enter__", "__exit__")):
                    bad.append("_action.py:%d %s.%s stores _parent_token (only Action.__enter__/__exit__ may)" % (n.lineno, cls_.name, f.name))
for n in ast.walk(tree):
    if isinstance(n, ast.Call) and isinstance(n.func, ast.Attribute) and n.func.attr in ("__enter__", "__exit__"):
        bad.append("_action.py:%d explicit call of %s (an action's token slot must only be driven by `with`)" % (n.lineno, n.func.attr))
cur = [n for n in tree.body if isinstance(n, ast.FunctionDef) and n.name == "current_action"]
if not cur or "_ACTION_CONTEXT.get" not in ast.unparse(cur[0]):
    bad.append("current_action() does not read _ACTION_CONTEXT")
if bad:
    print("CONTEXT CHECK FAILED:\n  " + "\n  ".join(bad)); sys.exit(1)
print("context check ok")
